"""C08 — Q-vector and hkl conversions satisfy their defining algebra."""

import itertools
import math

import mpmath as mp
import numpy as np
from hypothesis import strategies as st

from ..core import Facet, Violation, attributed
from ..gen import SIGNED_PERMS, logfloat, quaternion, signed, unit_vector
from ..ref import kin, qvec, units

PROPERTY = "C08"
RULE = (
    "Q facets: Hypothesis draws an incident direction on the sphere and a scattered direction that "
    "is generic, within 1e-9..1e-2 of forward or backward scattering, identical, or axis-aligned; "
    "each is multiplied by a length log-uniform over 1e-3..1e3 in m/cm/mm; wavelengths are "
    "log-uniform over 0.01..100 angstrom stored in angstrom/nm/m; operands are scalars or 1-d arrays "
    "(per-wavelength, per-pixel, both, or event-aligned). The rescaling facet adds powers of two "
    "2^-20..2^20 and arbitrary factors 1e-3..1e3, the rotation facet one of the 24 exact signed "
    "permutations and a quaternion. hkl facets: R and U from quaternions (stored as rotation3 or as "
    "a rounded 3x3 linear_transform3, special quarter turns mixed in), B = V diag(s) W^T with "
    "cond 1..1e6 (spectra with one or two small singular values) and overall scale 1e-2..10, or "
    "the Busing-Levy B of a random/cubic/hexagonal lattice; hkl0 integer in -20..20 or real with "
    "magnitude 1e-3..1e3; Q = 2 pi R U B hkl0 evaluated in 50-digit arithmetic and rounded; Q, R "
    "scalar or arrays (aligned or outer). Component facet: arbitrary float64 bit patterns (NaN, "
    "inf, -0.0, subnormals) in scalar/1-d/2-d/transposed layouts and the mismatched layouts. "
    "A case is non-trivial when a non-zero vector was compared (Q facets: e_i != e_f; hkl: "
    "hkl0 != 0; components: the three components differ somewhere so a permutation would show; "
    "mismatch cases: always); distinct = distinct descriptor hash."
)

EPS = 2.0**-52
TOL_Q = 2e-14        # |Q_got - Q_ref| <= TOL_Q * (2 pi / lambda); worst observed 8e-16
# |UB_ij - (U B)_ij| <= TOL_UB * |U_i.| |B_.j|. With U a stored matrix the a-priori bound of a length-3
# dot product is 1.5 EPS (worst observed 1.0 EPS); with U a quaternion scipp first expands it to a
# matrix, which costs a few EPS more per entry (worst observed 3.2 EPS).
TOL_UB = {"matrix": 16 * EPS, "quat": 64 * EPS}
# |hkl - hkl_ref| <= EPS (C1 cond + C2 cond^2) |hkl_ref|; worst observed 8.2 EPS cond at cond ~ 1 and
# 0.1 EPS cond^2 at cond > 1e2
HKL_C1, HKL_C2 = 128.0, 1.0
TOLERANCES = {
    "Q_abs_over_k": TOL_Q,
    "UB_rel_to_row_col_norms": TOL_UB,
    "hkl_forward_and_residual": "2^-52 * (128*cond + cond^2), cond = cond_2(R U B)",
    "components": "bit-identical (NaN stays NaN)",
    "pow2_rescaling": "bit-identical",
}
ASSUMPTIONS = [
    "mpmath at 50 digits is exact enough to serve as ground truth",
    "errors of the Q vector are measured relative to k = 2 pi / lambda (not |Q|): the defining formula "
    "subtracts two unit vectors, each known to ~1 ulp, so near forward scattering the absolute error "
    "is ~eps*k however the formula is evaluated",
    "'to rounding' for hkl means the accuracy of an explicit 3x3 inverse, eps*(128 cond + cond^2) "
    "(DESIGN: the code documents that it inverts R*UB explicitly); the bound is applied both to the "
    "forward error against the exact solution of the stored Q and to the residual 2 pi R UB hkl - Q",
    "operands are float64 (vector3 / rotation3 / linear_transform3 are float64-only in scipp); "
    "float32 components are only used in the component facet, where widening is exact",
]

LAM_UNITS = ["angstrom", "angstrom", "nm", "m"]
BEAM_UNITS = ["m", "m", "cm", "mm"]
INVLEN_UNITS = ["1/angstrom", "1/angstrom", "1/nm", "1/m"]
B_UNITS = ["1/angstrom", "1/angstrom", "1/nm"]
CANON = ["r", "spectrum", "wavelength", "event", "q"]


# ============================================================================ helpers


def _stored_lam(lam_angstrom: float, unit: str) -> float:
    return float(mp.mpf(lam_angstrom) * units.LENGTH["angstrom"] / units.LENGTH[unit])


def _vecs_var(dims, values, unit):
    import scipp as sc

    if not dims:
        return sc.vector(value=np.asarray(values[0], dtype=np.float64), unit=unit)
    return sc.vectors(dims=dims, values=np.asarray(values, dtype=np.float64).reshape(-1, 3), unit=unit)


def _floats_var(dims, values, unit):
    import scipp as sc

    if not dims:
        return sc.scalar(float(values[0]), unit=unit, dtype="float64")
    return sc.array(dims=dims, values=np.asarray(values, dtype=np.float64), unit=unit)


def _canon(dims):
    return [d for d in CANON if d in dims]


def _iter_bcast(ops):
    """ops: name -> (dims (0 or 1 entries), list of items). Yields (index tuple, {name: item})."""
    sizes = {}
    for dims, items in ops.values():
        if dims:
            if sizes.setdefault(dims[0], len(items)) != len(items):
                raise AssertionError("inconsistent operand sizes in case")
    out_dims = _canon(sizes)
    shape = [sizes[d] for d in out_dims]
    rows = []
    for idx in itertools.product(*[range(n) for n in shape]):
        pos = dict(zip(out_dims, idx, strict=True))
        rows.append((idx, {n: (items[pos[dims[0]]] if dims else items[0]) for n, (dims, items) in ops.items()}))
    return out_dims, shape, rows


def _values(var, out_dims, what):
    """numpy values of ``var`` in canonical dim order; checks the set of dims."""
    if set(var.dims) != set(out_dims):
        raise Violation("dims", f"{what}: result dims {var.dims}, expected {tuple(out_dims)}")
    v = var.transpose(out_dims) if out_dims else var
    return np.asarray(v.values)


def _expect(var, what, dtype, unit):
    import scipp as sc

    if str(var.dtype) != dtype:
        raise Violation("dtype", f"{what}: dtype {var.dtype}, expected {dtype}")
    want = sc.Unit(unit) if isinstance(unit, str) else unit
    if var.unit != want:
        raise Violation("unit", f"{what}: unit {var.unit!r}, expected {unit}")


def _fl(v):
    return [float(x) for x in v]


# ============================================================================ Q-vector strategies


AXES = [[1.0, 0.0, 0.0], [0.0, 1.0, 0.0], [0.0, 0.0, 1.0], [-1.0, 0.0, 0.0], [0.0, -1.0, 0.0], [0.0, 0.0, -1.0]]
RELATIONS = ["generic", "generic", "generic", "near_forward", "near_back", "equal", "axis"]


@st.composite
def scattered_dir(draw, di):
    """A scattered-beam direction (not normalised) in a drawn relation to the incident direction."""
    rel = draw(st.sampled_from(RELATIONS))
    if rel == "generic":
        return draw(unit_vector())
    if rel == "axis":
        return draw(st.sampled_from(AXES))
    if rel == "equal":
        return list(di)
    p = draw(unit_vector())
    d = draw(logfloat(-9, -2))
    s = 1.0 if rel == "near_forward" else -1.0
    return [s * a + d * b for a, b in zip(di, p, strict=True)]


@st.composite
def beam(draw, direction):
    length = draw(logfloat(-3, 3))
    return [x * length for x in direction]


Q_SHAPES = ["scalar", "1d", "pixel", "2d", "2d-bi", "aligned"]


@st.composite
def q_cases(draw, shapes=Q_SHAPES, max_n=4):
    shape = draw(st.sampled_from(shapes))
    n = draw(st.integers(1, max_n))
    m = draw(st.integers(1, max_n))
    lam_unit = draw(st.sampled_from(LAM_UNITS))
    n_lam = {"scalar": 1, "1d": n, "pixel": 1, "2d": n, "2d-bi": n, "aligned": n}[shape]
    n_bf = {"scalar": 1, "1d": 1, "pixel": m, "2d": m, "2d-bi": m, "aligned": n}[shape]
    lam_dims = {"scalar": [], "1d": ["wavelength"], "pixel": [], "2d": ["wavelength"],
                "2d-bi": ["wavelength"], "aligned": ["event"]}[shape]
    bf_dims = {"scalar": [], "1d": [], "pixel": ["spectrum"], "2d": ["spectrum"],
               "2d-bi": ["spectrum"], "aligned": ["event"]}[shape]
    bi_dims = ["spectrum"] if shape == "2d-bi" else []
    lam = [_stored_lam(draw(logfloat(-2, 2)), lam_unit) for _ in range(n_lam)]
    lam_dtype = "float64"
    if draw(st.sampled_from([False, False, False, True])):
        # whole numbers of the wavelength unit in an integer variable (seeded/C08-s3)
        lam = [float(draw(st.integers(1, 100))) for _ in range(n_lam)]
        lam_dtype = "int64"
    n_bi = n_bf if bi_dims else 1
    dirs_i = [draw(unit_vector()) for _ in range(n_bi)]
    bi = [draw(beam(d)) for d in dirs_i]
    bf = [draw(beam(draw(scattered_dir(dirs_i[j if bi_dims else 0])))) for j in range(n_bf)]
    return {
        "shape": shape,
        "lam": {"unit": lam_unit, "dims": lam_dims, "values": lam, "dtype": lam_dtype},
        "bi": {"unit": draw(st.sampled_from(BEAM_UNITS)), "dims": bi_dims, "values": bi},
        "bf": {"unit": draw(st.sampled_from(BEAM_UNITS)), "dims": bf_dims, "values": bf},
    }


def _q_inputs(case, bi=None, bf=None):
    lam = _floats_var(case["lam"]["dims"], case["lam"]["values"], case["lam"]["unit"])
    if case["lam"].get("dtype") == "int64":
        lam = lam.astype("int64")
    vi = _vecs_var(case["bi"]["dims"], bi if bi is not None else case["bi"]["values"], case["bi"]["unit"])
    vf = _vecs_var(case["bf"]["dims"], bf if bf is not None else case["bf"]["values"], case["bf"]["unit"])
    return lam, vi, vf


def _q_call(case, bi=None, bf=None):
    """Run the code under test; returns (out_dims, array[..., 3] of float64 in canonical dim order)."""
    from scippneutron.conversion import tof as K

    lam, vi, vf = _q_inputs(case, bi, bf)
    out = K.Q_elements_from_wavelength(wavelength=lam, incident_beam=vi, scattered_beam=vf)
    if sorted(out) != ["Qx", "Qy", "Qz"]:
        raise Violation("keys", f"Q_elements_from_wavelength returned keys {sorted(out)}")
    out_dims = _canon({*case["lam"]["dims"], *case["bi"]["dims"], *case["bf"]["dims"]})
    comps = []
    for name in ("Qx", "Qy", "Qz"):
        _expect(out[name], name, "float64", "1/" + case["lam"]["unit"])
        comps.append(_values(out[name], out_dims, name))
    return out_dims, np.stack(comps, axis=-1)


def _q_rows(case, bi=None, bf=None):
    ops = {
        "lam": (case["lam"]["dims"], case["lam"]["values"]),
        "bi": (case["bi"]["dims"], bi if bi is not None else case["bi"]["values"]),
        "bf": (case["bf"]["dims"], bf if bf is not None else case["bf"]["values"]),
    }
    return _iter_bcast(ops)


def _q_labels(case, rows):
    labs = ["shape:" + case["shape"], "lam:" + case["lam"]["unit"], "lam_dtype:" + case["lam"].get("dtype", "float64"),
            "bi:" + case["bi"]["unit"], "bf:" + case["bf"]["unit"]]
    nonzero = False
    for _, a in rows:
        ei, ef = qvec.unit(qvec.vec(a["bi"])), qvec.unit(qvec.vec(a["bf"]))
        d = qvec.norm(qvec.sub(ei, ef))
        if d == 0:
            labs.append("angle:zero")
        elif d < mp.mpf("1e-2"):
            labs.append("angle:near_forward")
            nonzero = True
        elif 2 - d < mp.mpf("1e-4"):
            labs.append("angle:near_back")
            nonzero = True
        else:
            labs.append("angle:generic")
            nonzero = True
    return labs, nonzero


# ---------------------------------------------------------------------------- facet: formula


def check_q_formula(case):
    out_dims, got = _q_call(case)
    dims2, shape, rows = _q_rows(case)
    assert dims2 == out_dims
    got = got.reshape([*shape, 3])
    labs, nonzero = _q_labels(case, rows)
    worst = mp.mpf(0)
    for idx, a in rows:
        lam = mp.mpf(a["lam"])
        ref = qvec.q_vector(lam, qvec.vec(a["bi"]), qvec.vec(a["bf"]))
        g = _fl(got[idx])
        if not all(math.isfinite(x) for x in g):
            raise Violation("non-finite", f"Q = {g} at index {list(idx)}; reference {[mp.nstr(x, 17) for x in ref]}")
        k = qvec.TWO_PI / lam
        err = qvec.norm(qvec.sub(qvec.vec(g), ref)) / k
        worst = max(worst, err)
        if err > TOL_Q:
            raise Violation(
                "value",
                f"Q = {g}, reference (2pi/lambda)(e_i-e_f) = {[mp.nstr(x, 17) for x in ref]}; "
                f"|diff|/k = {mp.nstr(err, 3)} > {TOL_Q}",
                {"index": list(idx), "err_over_k": float(err)},
            )
    return labs, nonzero


# ---------------------------------------------------------------------------- facet: |Q_vec| = scalar Q


def check_q_norm(case):
    from scippneutron.conversion import beamline as BL
    from scippneutron.conversion import tof as K

    out_dims, got = _q_call(case)
    _, shape, rows = _q_rows(case)
    got = got.reshape([*shape, 3])
    lam, vi, vf = _q_inputs(case)
    tt = BL.two_theta(incident_beam=vi, scattered_beam=vf)
    qs = K.Q_from_wavelength(wavelength=lam, two_theta=tt)
    _expect(qs, "Q_from_wavelength", "float64", "1/" + case["lam"]["unit"])
    qsv = _values(qs, out_dims, "Q_from_wavelength").reshape(shape)
    labs, nonzero = _q_labels(case, rows)
    for idx, a in rows:
        k = qvec.TWO_PI / mp.mpf(a["lam"])
        nq = qvec.norm(qvec.vec(got[idx]))
        s = mp.mpf(float(qsv[idx]))
        err = abs(nq - s) / k
        if not err <= TOL_Q:
            raise Violation(
                "norm-vs-scalar",
                f"|Q_vec| = {mp.nstr(nq, 17)} but Q_from_wavelength(two_theta(beams)) = {mp.nstr(s, 17)}; "
                f"|diff|/k = {mp.nstr(err, 3)} > {TOL_Q}",
                {"index": list(idx)},
            )
        # and both equal 4 pi sin(theta) / lambda with the Kahan angle of the stored beams
        ref = kin.Q_from_wavelength(mp.mpf(a["lam"]), kin.kahan_angle(qvec.vec(a["bi"]), qvec.vec(a["bf"])))
        if abs(nq - ref) / k > TOL_Q:
            raise Violation("norm-vs-formula", f"|Q_vec| = {mp.nstr(nq, 17)}, 4 pi sin(theta)/lambda = {mp.nstr(ref, 17)}")
    return labs, nonzero


# ---------------------------------------------------------------------------- facet: beam lengths


@st.composite
def q_scale_cases(draw):
    case = draw(q_cases(max_n=3))
    case["ki"] = draw(st.integers(-20, 20))
    case["kf"] = draw(st.integers(-20, 20))
    case["ci"] = draw(logfloat(-3, 3))
    case["cf"] = draw(logfloat(-3, 3))
    return case


def check_q_scale(case):
    out_dims, base = _q_call(case)
    _, shape, rows = _q_rows(case)
    labs, nonzero = _q_labels(case, rows)
    # exact: powers of two
    fi, ff = 2.0 ** case["ki"], 2.0 ** case["kf"]
    bi2 = [[x * fi for x in v] for v in case["bi"]["values"]]
    bf2 = [[x * ff for x in v] for v in case["bf"]["values"]]
    _, got2 = _q_call(case, bi2, bf2)
    tiny = 2.0**-1000
    underflow = any(x != 0 and abs(x) < tiny for vs in (case["bi"]["values"], case["bf"]["values"], bi2, bf2)
                    for v in vs for x in v)
    if underflow:
        # a component that leaves the normal range loses bits when scaled: 2^k is then not exact
        labs.append("pow2:underflow-skip")
    elif not np.array_equal(base.view(np.uint64), got2.view(np.uint64)):
        # +0.0 / -0.0 are the same vector
        if not np.array_equal(base, got2):
            bad = np.argwhere(base != got2)[0]
            raise Violation(
                "pow2-rescaling",
                f"Q changes when incident beam is scaled by 2^{case['ki']} and scattered beam by 2^{case['kf']}: "
                f"{base[tuple(bad[:-1])].tolist()} -> {got2[tuple(bad[:-1])].tolist()}",
            )
    # to rounding: arbitrary factors
    bi3 = [[x * case["ci"] for x in v] for v in case["bi"]["values"]]
    bf3 = [[x * case["cf"] for x in v] for v in case["bf"]["values"]]
    _, got3 = _q_call(case, bi3, bf3)
    b = base.reshape([*shape, 3])
    g = got3.reshape([*shape, 3])
    for idx, a in rows:
        k = qvec.TWO_PI / mp.mpf(a["lam"])
        err = qvec.norm(qvec.sub(qvec.vec(g[idx]), qvec.vec(b[idx]))) / k
        if not err <= TOL_Q:
            raise Violation(
                "rescaling",
                f"Q changes by {mp.nstr(err, 3)}*k when beams are scaled by {case['ci']!r}, {case['cf']!r}: "
                f"{_fl(b[idx])} -> {_fl(g[idx])}",
            )
    labs.append("ki:" + ("0" if case["ki"] == 0 else "neg" if case["ki"] < 0 else "pos"))
    return labs, nonzero and not underflow and (case["ki"] != 0 or case["kf"] != 0)


# ---------------------------------------------------------------------------- facet: rotation


@st.composite
def q_rot_cases(draw):
    case = draw(q_cases(max_n=3))
    case["perm"] = draw(st.integers(0, len(SIGNED_PERMS) - 1))
    case["quat"] = draw(quaternion())
    return case


def check_q_rotation(case):
    out_dims, base = _q_call(case)
    _, shape, rows = _q_rows(case)
    labs, nonzero = _q_labels(case, rows)
    b = base.reshape([*shape, 3])
    # (a) exact signed permutation of the axes: inputs are rotated without rounding
    P = SIGNED_PERMS[case["perm"]]
    Pm = qvec.mat(P)
    bi2 = [_fl(P @ np.asarray(v)) for v in case["bi"]["values"]]
    bf2 = [_fl(P @ np.asarray(v)) for v in case["bf"]["values"]]
    _, got2 = _q_call(case, bi2, bf2)
    g2 = got2.reshape([*shape, 3])
    # (b) general rotation: rotated beams rounded to float64
    R = qvec.rot_from_quat(case["quat"])
    bi3 = [_fl(qvec.matvec(R, qvec.vec(v))) for v in case["bi"]["values"]]
    bf3 = [_fl(qvec.matvec(R, qvec.vec(v))) for v in case["bf"]["values"]]
    _, got3 = _q_call(case, bi3, bf3)
    g3 = got3.reshape([*shape, 3])
    for idx, a in rows:
        k = qvec.TWO_PI / mp.mpf(a["lam"])
        q0 = qvec.vec(b[idx])
        for name, rot, g in (("signed permutation", Pm, g2), ("rotation", R, g3)):
            exp = qvec.matvec(rot, q0)
            err = qvec.norm(qvec.sub(qvec.vec(g[idx]), exp)) / k
            if not err <= TOL_Q:
                raise Violation(
                    "rotation-equivariance",
                    f"{name}: Q(R b_i, R b_f) = {_fl(g[idx])} but R Q(b_i, b_f) = {[mp.nstr(x, 17) for x in exp]}; "
                    f"|diff|/k = {mp.nstr(err, 3)}",
                    {"index": list(idx)},
                )
    labs.append("perm:identity" if np.array_equal(P, np.eye(3)) else "perm:other")
    return labs, nonzero


# ============================================================================ hkl strategies

SPECIAL_QUATS = [
    [0.0, 0.0, 0.0, 1.0], [1.0, 0.0, 0.0, 0.0], [0.0, 1.0, 0.0, 0.0], [0.0, 0.0, 1.0, 0.0],
    [1.0, 1.0, 1.0, 1.0], [0.0, 0.0, 1.0, 1.0], [1.0, 0.0, 0.0, -1.0], [0.0, 1.0, 0.0, 1.0],
]


def rot_spec():
    q = st.one_of(quaternion(), quaternion(), quaternion(), quaternion(), st.sampled_from(SPECIAL_QUATS))
    return st.fixed_dictionaries({"kind": st.sampled_from(["quat", "quat", "matrix"]), "q": q})


@st.composite
def b_spec(draw, max_logcond=6.0):
    unit = draw(st.sampled_from(B_UNITS))
    kind = draw(st.sampled_from(["svd", "svd", "svd", "lattice"]))
    if kind == "svd":
        # log10(cond) uniform over 0..max (integers/100: Hypothesis' float strategy over-weights the ends)
        lc = draw(st.one_of(st.integers(0, int(100 * max_logcond)), st.integers(0, int(100 * max_logcond)),
                            st.integers(0, 100), st.sampled_from([0, int(100 * max_logcond)]))) / 100.0
        spectrum = draw(st.sampled_from(["two_small", "one_small", "spread"]))
        mid = {"two_small": lc, "one_small": 0.0}.get(spectrum)
        if mid is None:
            mid = lc * draw(st.integers(0, 100)) / 100.0
        scale = draw(logfloat(-2, 1))
        s = [scale, scale * 10.0 ** (-mid), scale * 10.0 ** (-lc)]
        return {"kind": "svd", "unit": unit, "qV": draw(quaternion()), "qW": draw(quaternion()),
                "s": s, "spectrum": spectrum}
    cls = draw(st.sampled_from(["triclinic", "triclinic", "cubic", "hexagonal", "orthorhombic"]))
    a, b, c = (draw(logfloat(0, 1.5)) for _ in range(3))
    if cls == "cubic":
        b = c = a
        ang = [90.0, 90.0, 90.0]
    elif cls == "hexagonal":
        b = a
        ang = [90.0, 90.0, 120.0]
    elif cls == "orthorhombic":
        ang = [90.0, 90.0, 90.0]
    else:
        # angles in [65, 115] deg always form a valid cell (each < sum of the others, total < 360)
        ang = [draw(st.floats(65.0, 115.0)) for _ in range(3)]
    return {"kind": "lattice", "unit": unit, "abc": [a, b, c], "angles_deg": ang, "cls": cls}


def hkl0_vec():
    ints = st.lists(st.integers(-20, 20), min_size=3, max_size=3).map(lambda v: [float(x) for x in v])
    reals = st.lists(st.one_of(signed(logfloat(-3, 3)), st.just(0.0)), min_size=3, max_size=3)
    return st.one_of(ints, reals)


@st.composite
def hkl_cases(draw, modes=("scalar", "array", "aligned", "outer"), max_logcond=6.0):
    mode = draw(st.sampled_from(modes))
    nq = 1 if mode == "scalar" else draw(st.integers(1, 4))
    nr = {"scalar": 1, "array": 1, "aligned": nq, "outer": draw(st.integers(1, 3))}[mode]
    return {
        "mode": mode,
        "R": [draw(rot_spec()) for _ in range(nr)],
        "U": draw(rot_spec()),
        "B": draw(b_spec(max_logcond)),
        "hkl0": [draw(hkl0_vec()) for _ in range(nq)],
        "q_unit": draw(st.sampled_from(INVLEN_UNITS)),
    }


# ---------------------------------------------------------------------------- building matrices


def _quat_stored(q):
    n = math.sqrt(sum(x * x for x in q))
    return [x / n for x in q]


def _rot_build(spec):
    """-> (stored numpy payload, kind, exact mp matrix of what is stored)."""
    qs = _quat_stored(spec["q"])
    Rm = qvec.rot_from_quat(qs)
    if spec["kind"] == "quat":
        return np.asarray(qs, dtype=np.float64), "quat", Rm
    stored = np.asarray([[float(x) for x in row] for row in Rm], dtype=np.float64)
    return stored, "matrix", qvec.mat(stored)


def _rot_var(specs, dims):
    import scipp as sc

    built = [_rot_build(s) for s in specs]
    kinds = {b[1] for b in built}
    if len(kinds) > 1:
        # an array variable has one dtype: fall back to matrices for all entries
        built = [_rot_build({**s, "kind": "matrix"}) for s in specs]
    kind = built[0][1]
    if not dims:
        var = (sc.spatial.rotation(value=built[0][0]) if kind == "quat"
               else sc.spatial.linear_transform(value=built[0][0]))
    elif kind == "quat":
        var = sc.spatial.rotations(dims=dims, values=np.stack([b[0] for b in built]))
    else:
        var = sc.spatial.linear_transforms(dims=dims, values=np.stack([b[0] for b in built]))
    return var, [b[2] for b in built], kind


def _b_build(spec):
    if spec["kind"] == "svd":
        V = qvec.rot_from_quat(spec["qV"])
        W = qvec.rot_from_quat(spec["qW"])
        s = [mp.mpf(x) for x in spec["s"]]
        D = [[s[i] if i == j else mp.mpf(0) for j in range(3)] for i in range(3)]
        Bm = qvec.matmul(V, qvec.matmul(D, qvec.transpose(W)))
    else:
        a, b, c = (mp.mpf(x) for x in spec["abc"])
        al, be, ga = (mp.mpf(x) * mp.pi / 180 for x in spec["angles_deg"])
        Bm = qvec.b_matrix_busing_levy(a, b, c, al, be, ga)
        if spec["unit"] == "1/nm":
            Bm = [[10 * x for x in row] for row in Bm]
    stored = np.asarray([[float(x) for x in row] for row in Bm], dtype=np.float64)
    return stored, qvec.mat(stored)


def _b_var(spec):
    import scipp as sc

    stored, Bm = _b_build(spec)
    return sc.spatial.linear_transform(value=stored, unit=spec["unit"]), Bm


def _cond(A):
    """cond_2 of an mp 3x3 matrix; float64 SVD is accurate to ~1e-10 relative at cond 1e6, and the
    value only parameterises the error bound."""
    s = np.linalg.svd(np.asarray([[float(x) for x in row] for row in A], dtype=np.float64), compute_uv=False)
    return mp.mpf(float(s[0])) / mp.mpf(float(s[2])), mp.mpf(float(s[2]))


def _hkl_bound(cond):
    return EPS * (HKL_C1 * cond + HKL_C2 * cond * cond)


def _cond_label(c):
    c = float(c)
    for hi, name in ((1.5, "cond:~1"), (1e2, "cond:<1e2"), (1e4, "cond:<1e4"), (1e7, "cond:<=1e6")):
        if c < hi:
            return name
    return "cond:>1e6"


# ---------------------------------------------------------------------------- facet: hkl inverse


def check_hkl(case):
    import scipp as sc
    from scippneutron.conversion import tof as K

    mode = case["mode"]
    r_dims = {"scalar": [], "array": [], "aligned": ["q"], "outer": ["r"]}[mode]
    q_dims = [] if mode == "scalar" else ["q"]
    Rv, Rms, rkind = _rot_var(case["R"], r_dims)
    Uv, Ums, ukind = _rot_var([case["U"]], [])
    Bv, Bm = _b_var(case["B"])
    UBm = qvec.matmul(Ums[0], Bm)
    As = [qvec.matmul(Rm, UBm) for Rm in Rms]
    conds = [_cond(A)[0] for A in As]
    Ainvs = [qvec.inv(A) for A in As]
    # Q unit / B unit as an exact factor
    ufac = units.ALL[case["q_unit"]] / units.ALL[case["B"]["unit"]]
    hkl0 = [qvec.vec(h) for h in case["hkl0"]]
    # generate Q_j = 2 pi A hkl0_j (A of rotation j if aligned, of rotation 0 otherwise), rounded
    Qs = []
    for j, h in enumerate(hkl0):
        A = As[j] if mode == "aligned" else As[0]
        Qs.append(_fl(qvec.scale(qvec.TWO_PI / ufac, qvec.matvec(A, h))))
    Qv = _vecs_var(q_dims, Qs, case["q_unit"])
    ub = K.ub_matrix_from_u_and_b(u_matrix=Uv, b_matrix=Bv)
    got = K.hkl_vec_from_Q_vec(Q_vec=Qv, ub_matrix=ub, sample_rotation=Rv)
    _expect(got, "hkl_vec", "vector3", sc.Unit(case["q_unit"]) / sc.Unit(case["B"]["unit"]))
    ops = {"Q": (q_dims, list(range(len(Qs))))}
    if mode == "outer":
        ops["R"] = (["r"], list(range(len(As))))
    out_dims, shape, rows = _iter_bcast(ops)
    g = _values(got, out_dims, "hkl_vec").reshape([*shape, 3])
    labs = ["mode:" + mode, "R:" + rkind, "U:" + ukind, "B:" + case["B"]["kind"],
            "B:" + case["B"].get("spectrum", case["B"].get("cls", "")),
            "units:" + case["q_unit"] + "|" + case["B"]["unit"]]
    nontrivial = False
    for idx, a in rows:
        j = a["Q"]
        ir = a["R"] if mode == "outer" else (j if mode == "aligned" else 0)
        A, cond = As[ir], conds[ir]
        bound = _hkl_bound(cond)
        labs.append(_cond_label(cond))
        qst = qvec.scale(ufac, qvec.vec(Qs[j]))   # stored Q in the unit of B
        xref = qvec.matvec(Ainvs[ir], [x / qvec.TWO_PI for x in qst])
        gv = qvec.scale(ufac, qvec.vec(g[idx]))    # hkl: value times the unit's multiplier
        if not all(math.isfinite(float(x)) for x in g[idx]):
            raise Violation("non-finite", f"hkl = {_fl(g[idx])} for cond {mp.nstr(cond, 3)}")
        nx = qvec.norm(xref)
        is_int = all(float(v).is_integer() for v in case["hkl0"][j])
        labs.append("hkl0:int" if is_int else "hkl0:real")
        if nx == 0:
            if any(x != 0 for x in gv):
                raise Violation("hkl-forward", f"Q = 0 but hkl = {_fl(g[idx])}")
            labs.append("hkl0:zero")
            continue
        nontrivial = True
        ferr = qvec.norm(qvec.sub(gv, xref)) / nx
        if not ferr <= bound:
            raise Violation(
                "hkl-forward",
                f"hkl = {[mp.nstr(x, 17) for x in gv]} but (2 pi R U B)^-1 Q = {[mp.nstr(x, 17) for x in xref]} "
                f"(generated from hkl0 = {case['hkl0'][j]}); rel. error {mp.nstr(ferr, 3)} > {mp.nstr(bound, 3)} "
                f"at cond {mp.nstr(cond, 3)}",
                {"index": list(idx), "cond": float(cond), "rel_err": float(ferr)},
            )
        res = qvec.sub(qvec.scale(qvec.TWO_PI, qvec.matvec(A, gv)), qst)
        rerr = qvec.norm(res) / qvec.norm(qst)
        if not rerr <= bound:
            raise Violation(
                "hkl-residual",
                f"|2 pi R UB hkl - Q| / |Q| = {mp.nstr(rerr, 3)} > {mp.nstr(bound, 3)} at cond {mp.nstr(cond, 3)}; "
                f"hkl = {[mp.nstr(x, 17) for x in gv]}, Q = {Qs[j]}",
                {"index": list(idx), "cond": float(cond), "rel_res": float(rerr)},
            )
    return labs, nontrivial


# ---------------------------------------------------------------------------- facet: UB = U B


@st.composite
def ub_cases(draw):
    mode = draw(st.sampled_from(["scalar", "scalar", "U-array", "B-array", "aligned", "outer"]))
    nu = 1 if mode in ("scalar", "B-array") else draw(st.integers(1, 3))
    nb = 1 if mode in ("scalar", "U-array") else (nu if mode == "aligned" else draw(st.integers(1, 3)))
    unit = draw(st.sampled_from(B_UNITS))
    bs = []
    for _ in range(nb):
        b = draw(b_spec())
        b["unit"] = unit
        bs.append(b)
    return {"mode": mode, "U": [draw(rot_spec()) for _ in range(nu)], "B": bs}


def check_ub(case):
    import scipp as sc
    from scippneutron.conversion import tof as K

    mode = case["mode"]
    u_dims = {"scalar": [], "B-array": [], "U-array": ["r"], "aligned": ["q"], "outer": ["r"]}[mode]
    b_dims = {"scalar": [], "U-array": [], "B-array": ["q"], "aligned": ["q"], "outer": ["q"]}[mode]
    Uv, Ums, ukind = _rot_var(case["U"], u_dims)
    built = [_b_build(b) for b in case["B"]]
    unit = case["B"][0]["unit"]
    if b_dims:
        Bv = sc.spatial.linear_transforms(dims=b_dims, values=np.stack([b[0] for b in built]), unit=unit)
    else:
        Bv = sc.spatial.linear_transform(value=built[0][0], unit=unit)
    got = K.ub_matrix_from_u_and_b(u_matrix=Uv, b_matrix=Bv)
    _expect(got, "ub_matrix", "linear_transform3", unit)
    out_dims, shape, rows = _iter_bcast({"U": (u_dims, list(range(len(Ums)))), "B": (b_dims, list(range(len(built))))})
    g = _values(got, out_dims, "ub_matrix").reshape([*shape, 3, 3])
    labs = ["mode:" + mode, "U:" + ukind, *("B:" + b["kind"] for b in case["B"])]
    nontrivial = False
    for idx, a in rows:
        Um, Bm = Ums[a["U"]], built[a["B"]][1]
        ref = qvec.matmul(Um, Bm)
        refT = qvec.matmul(Bm, Um)
        if any(abs(ref[i][j] - refT[i][j]) > mp.mpf("1e-6") * abs(ref[i][j]) + mp.mpf("1e-300")
               for i in range(3) for j in range(3)):
            nontrivial = True   # U and B do not commute: the order of the product is observable
        for i in range(3):
            rn = qvec.norm(Um[i])
            for j in range(3):
                cn = qvec.norm([Bm[k][j] for k in range(3)])
                gij = mp.mpf(float(g[idx][i][j]))
                err = abs(gij - ref[i][j])
                if not err <= TOL_UB[ukind] * rn * cn:
                    raise Violation(
                        "ub-product",
                        f"UB[{i}][{j}] = {mp.nstr(gij, 17)} but (U B)[{i}][{j}] = {mp.nstr(ref[i][j], 17)}; "
                        f"error {mp.nstr(err / (rn * cn), 3)} of |U_i||B_j| > {TOL_UB[ukind]:.2e}",
                        {"index": list(idx), "i": i, "j": j},
                    )
    return labs, nontrivial


# ============================================================================ facet: components


def _bits(x: float) -> str:
    return float(x).hex()


SPECIAL_FLOATS = [0.0, -0.0, float("inf"), float("-inf"), float("nan"), 5e-324, -5e-324, 2.2250738585072014e-308,
                  1.7976931348623157e308, 1.0, -1.0, 0.1, 1e-300, 1e300, 2.0**53 + 2.0]


def any_float():
    return st.one_of(
        st.floats(allow_nan=True, allow_infinity=True, allow_subnormal=True),
        st.floats(-1e3, 1e3),
        st.sampled_from(SPECIAL_FLOATS),
    ).map(_bits)


COMP_LAYOUTS = ["scalar", "1d", "2d", "transposed", "float32"]
MISMATCH = ["length", "dim-name", "scalar-vs-array", "extra-dim", "2d-length"]


@st.composite
def comp_cases(draw):
    kind = draw(st.sampled_from(["Q", "Q", "hkl"]))
    if draw(st.integers(0, 4)) == 0:
        return {"kind": "Q", "layout": "mismatch", "mismatch": draw(st.sampled_from(MISMATCH)),
                "which": draw(st.integers(0, 2)), "n": draw(st.integers(1, 4)), "unit": "1/angstrom"}
    layout = draw(st.sampled_from(COMP_LAYOUTS))
    n = draw(st.integers(0 if layout == "1d" else 1, 5))
    m = draw(st.integers(1, 3))
    count = {"scalar": 1, "1d": n, "float32": n}.get(layout, n * m)
    comps = [draw(st.lists(any_float(), min_size=count, max_size=count)) for _ in range(3)]
    unit = draw(st.sampled_from(["1/angstrom", "1/nm", "dimensionless", "1/m"]))
    return {"kind": kind, "layout": layout, "n": n, "m": m, "comps": comps, "unit": unit,
            "transposed": draw(st.integers(0, 2))}


def _same_bits(a, b) -> bool:
    a = np.ascontiguousarray(a, dtype=np.float64)
    b = np.ascontiguousarray(b, dtype=np.float64)
    if a.shape != b.shape:
        return False
    both_nan = np.isnan(a) & np.isnan(b)
    return bool(np.all(both_nan | (a.view(np.uint64) == b.view(np.uint64))))


def check_components(case):
    import scipp as sc
    from scippneutron.conversion import tof as K

    if case["layout"] == "mismatch":
        return _check_mismatch(case)
    layout, n, m = case["layout"], case["n"], case["m"]
    vals = [np.array([float.fromhex(h) for h in comp], dtype=np.float64) for comp in case["comps"]]
    if layout == "float32":
        with np.errstate(over="ignore"):
            vals = [v.astype(np.float32) for v in vals]
    dims, shape = {"scalar": ([], []), "1d": (["x"], [n]), "float32": (["x"], [n])}.get(layout, (["a", "b"], [n, m]))
    comps = []
    for i, v in enumerate(vals):
        if not dims:
            comps.append(sc.scalar(float(v[0]), unit=case["unit"]))
        elif layout == "transposed" and i == case["transposed"]:
            # same sizes, other memory order: the data are given in (b, a) order
            comps.append(sc.array(dims=["b", "a"], values=v.reshape(m, n), unit=case["unit"]))
        else:
            comps.append(sc.array(dims=dims, values=v.reshape(shape), unit=case["unit"]))
    want = [c.copy() for c in comps]
    labs = ["kind:" + case["kind"], "layout:" + layout, "unit:" + case["unit"]]
    flat = np.concatenate([np.asarray(v, dtype=np.float64) for v in vals]) if vals[0].size else np.zeros(0)
    if np.isnan(flat).any():
        labs.append("has:nan")
    if np.isinf(flat).any():
        labs.append("has:inf")
    if ((flat != 0) & (np.abs(flat) < 2.3e-308)).any():
        labs.append("has:subnormal")
    if ((flat == 0) & np.signbit(flat)).any():
        labs.append("has:-0")

    def cmp(var, ref, what):
        if var.unit != ref.unit:
            raise Violation("unit", f"{what}: unit {var.unit}, expected {ref.unit}")
        if str(var.dtype) != "float64":
            raise Violation("dtype", f"{what}: dtype {var.dtype}")
        if dict(var.sizes) != dict(ref.sizes):
            raise Violation("dims", f"{what}: sizes {dict(var.sizes)}, expected {dict(ref.sizes)}")
        r = ref.transpose(var.dims) if var.dims else ref
        if not _same_bits(var.values, np.asarray(r.values, dtype=np.float64)):
            raise Violation("lossy", f"{what}: {np.asarray(var.values).tolist()} != supplied {np.asarray(r.values).tolist()}")

    if case["kind"] == "Q":
        vec = K.Q_vec_from_Q_elements(Qx=comps[0], Qy=comps[1], Qz=comps[2])
    else:
        vec = sc.spatial.as_vectors(*comps)
    if str(vec.dtype) != "vector3":
        raise Violation("dtype", f"assembled vector has dtype {vec.dtype}")
    # inputs untouched by assembling
    for c, w, nm in zip(comps, want, "xyz", strict=True):
        if not (c.dims == w.dims and c.unit == w.unit and _same_bits(c.values, w.values)):
            raise Violation("input-modified", f"component {nm} was modified by Q_vec_from_Q_elements")
    # assembled vector carries exactly the supplied components
    for f, w in zip(("x", "y", "z"), want, strict=True):
        cmp(getattr(vec.fields, f), w, f"Q_vec.fields.{f}")
    # splitting
    el = K.hkl_elements_from_hkl_vec(hkl_vec=vec)
    if sorted(el) != ["h", "k", "l"]:
        raise Violation("keys", f"hkl_elements_from_hkl_vec returned keys {sorted(el)}")
    for key, w in zip(("h", "k", "l"), want, strict=True):
        cmp(el[key], w, f"hkl_elements[{key}]")
    # ... and reassembling gives the same vector
    again = K.Q_vec_from_Q_elements(Qx=el["h"], Qy=el["k"], Qz=el["l"])
    if again.dims != vec.dims or again.unit != vec.unit or not _same_bits(again.values, vec.values):
        raise Violation("lossy", "split + reassemble changed the vector")
    distinct = bool(len(flat)) and not (
        _same_bits(vals[0], vals[1]) or _same_bits(vals[1], vals[2]) or _same_bits(vals[0], vals[2]))
    return labs, distinct


def _check_mismatch(case):
    import scipp as sc
    from scippneutron.conversion import tof as K

    n, which, mm = case["n"], case["which"], case["mismatch"]
    base = sc.array(dims=["q"], values=np.arange(1.0, n + 1.0), unit=case["unit"])
    if mm == "2d-length":
        base = sc.array(dims=["q", "p"], values=np.arange(1.0, 2 * n + 1.0).reshape(n, 2), unit=case["unit"])
        odd = sc.array(dims=["q", "p"], values=np.arange(1.0, 3 * n + 1.0).reshape(n, 3), unit=case["unit"])
    elif mm == "length":
        odd = sc.array(dims=["q"], values=np.arange(1.0, n + 2.0), unit=case["unit"])
    elif mm == "dim-name":
        odd = sc.array(dims=["Q"], values=np.arange(1.0, n + 1.0), unit=case["unit"])
    elif mm == "scalar-vs-array":
        odd = sc.scalar(1.0, unit=case["unit"])
    else:  # extra-dim
        odd = sc.array(dims=["q", "p"], values=np.ones((n, 2)), unit=case["unit"])
    comps = [base.copy(), base.copy(), base.copy()]
    comps[which] = odd
    labs = ["layout:mismatch", "mismatch:" + mm, f"odd:{'xyz'[which]}"]
    try:
        out = K.Q_vec_from_Q_elements(Qx=comps[0], Qy=comps[1], Qz=comps[2])
    except sc.DimensionError:
        return labs, True
    raise Violation(
        "mismatch-accepted",
        f"components with sizes {[dict(c.sizes) for c in comps]} were combined into a vector of sizes "
        f"{dict(out.sizes)} instead of raising DimensionError",
    )


# ============================================================================ facet: graph wiring


@st.composite
def graph_cases(draw):
    case = draw(q_cases(shapes=["1d", "2d", "2d-bi"], max_n=3))
    # transform_coords needs the wavelength-like coordinate to be an array coordinate
    case["start"] = draw(st.sampled_from(["wavelength", "wavelength", "tof"]))
    case["factory"] = draw(st.sampled_from(["elastic", "elastic_hkl", "elastic_Q_vec"]))
    case["R"] = [draw(rot_spec())]
    case["U"] = draw(rot_spec())
    case["B"] = draw(b_spec(max_logcond=2.0))
    if case["start"] == "tof":
        case["lam"]["unit"] = "angstrom"
        case["Ltotal"] = draw(logfloat(0, 2))
        # tof in us giving the drawn wavelength (the stored tof is the input; wavelength is derived)
        c = kin.consts()
        case["tof_us"] = [
            float(mp.mpf(lam) * mp.mpf("1e-10") * c["m_n"] * mp.mpf(case["Ltotal"]) / c["h"] * 10**6)
            for lam in case["lam"]["values"]
        ]
    return case


def check_graph(case):
    import scipp as sc
    from scippneutron.conversion.graph import tof as G

    lam, vi, vf = _q_inputs(case)
    Rv, Rms, rkind = _rot_var(case["R"], [])
    Uv, Ums, ukind = _rot_var([case["U"]], [])
    Bv, Bm = _b_var(case["B"])
    A = qvec.matmul(Rms[0], qvec.matmul(Ums[0], Bm))
    cond, smin = _cond(A)
    Ainv = qvec.inv(A)
    ainv_norm = 1 / smin
    lam_dim = case["lam"]["dims"][0]
    sizes = {}
    for o in (case["lam"], case["bi"], case["bf"]):
        for d in o["dims"]:
            sizes[d] = len(o["values"])
    coords = {"incident_beam": vi, "scattered_beam": vf, "sample_rotation": Rv, "u_matrix": Uv, "b_matrix": Bv}
    lam_values = [mp.mpf(x) for x in case["lam"]["values"]]
    if case["start"] == "tof":
        coords["tof"] = sc.array(dims=[lam_dim], values=np.asarray(case["tof_us"]), unit="us")
        coords["Ltotal"] = sc.scalar(case["Ltotal"], unit="m")
        lam_values = [
            kin.wavelength_from_tof(mp.mpf(t) / 10**6, mp.mpf(case["Ltotal"])) * 10**10 for t in case["tof_us"]
        ]
    else:
        coords["wavelength"] = lam
    da = sc.DataArray(sc.ones(dims=list(sizes), shape=list(sizes.values())), coords=coords)
    graph = getattr(G, case["factory"])(case["start"])
    targets = ["Q_vec"] if case["factory"] == "elastic_Q_vec" else ["Q_vec", "hkl_vec", "h", "k", "l"]
    with attributed(f"transform_coords({targets}) over graph.tof.{case['factory']}({case['start']!r})"):
        out = da.transform_coords(targets, graph=graph, rename_dims=False, keep_intermediate=True, keep_inputs=True)
    lam_unit = case["lam"]["unit"]
    ufac = units.ALL["1/" + lam_unit] / units.ALL[case["B"]["unit"]]
    ops = {"lam": (case["lam"]["dims"], lam_values), "bi": (case["bi"]["dims"], case["bi"]["values"]),
           "bf": (case["bf"]["dims"], case["bf"]["values"])}
    out_dims, shape, rows = _iter_bcast(ops)
    labs, nonzero = _q_labels(case, [(i, {**a, "lam": a["lam"]}) for i, a in rows])
    labs += ["start:" + case["start"], "factory:" + case["factory"], _cond_label(cond)]
    _expect(out.coords["Q_vec"], "Q_vec", "vector3", "1/" + lam_unit)
    qv = _values(out.coords["Q_vec"], out_dims, "Q_vec").reshape([*shape, 3])
    have_hkl = "hkl_vec" in targets
    if have_hkl:
        hunit = sc.Unit("1/" + lam_unit) / sc.Unit(case["B"]["unit"])
        _expect(out.coords["hkl_vec"], "hkl_vec", "vector3", hunit)
        hv = _values(out.coords["hkl_vec"], out_dims, "hkl_vec").reshape([*shape, 3])
        hs = []
        for key in ("h", "k", "l"):
            _expect(out.coords[key], key, "float64", hunit)
            hs.append(_values(out.coords[key], out_dims, key).reshape(shape))
    # C01: wavelength_from_tof is accurate to 1e-11 relative, i.e. 1e-11 |Q| <= 2e-11 k
    tolq = TOL_Q if case["start"] == "wavelength" else TOL_Q + 3e-11
    for idx, a in rows:
        k = qvec.TWO_PI / a["lam"]
        qref = qvec.q_vector(a["lam"], qvec.vec(a["bi"]), qvec.vec(a["bf"]))
        err = qvec.norm(qvec.sub(qvec.vec(qv[idx]), qref)) / k
        if not err <= tolq:
            raise Violation("graph-Q_vec", f"Q_vec = {_fl(qv[idx])}, reference {[mp.nstr(x, 17) for x in qref]}; "
                                           f"|diff|/k = {mp.nstr(err, 3)}", {"index": list(idx)})
        if not have_hkl:
            continue
        xref = qvec.matvec(Ainv, [x * ufac / qvec.TWO_PI for x in qref])
        gv = qvec.scale(ufac, qvec.vec(hv[idx]))
        tol = _hkl_bound(cond) * qvec.norm(xref) + ainv_norm * tolq * k * ufac / qvec.TWO_PI
        e = qvec.norm(qvec.sub(gv, xref))
        if not e <= tol:
            raise Violation("graph-hkl", f"hkl_vec = {[mp.nstr(x, 17) for x in gv]}, reference "
                                         f"{[mp.nstr(x, 17) for x in xref]}; error {mp.nstr(e, 3)} > {mp.nstr(tol, 3)}",
                            {"index": list(idx)})
        comp = [float(h[idx]) for h in hs]
        if not _same_bits(np.asarray(comp), np.asarray(_fl(hv[idx]))):
            raise Violation("graph-hkl-elements", f"(h, k, l) = {comp} but hkl_vec = {_fl(hv[idx])}")
    return labs, nonzero


# ============================================================================ registration

@st.composite
def hkl_sequence_cases(draw):
    # one layout for the whole sequence: the calls then allocate their operands in the same pattern, which
    # is what makes CPython hand out the same object addresses again
    mode = draw(st.sampled_from(["scalar", "scalar", "array"]))
    return {"cases": [draw(hkl_cases(modes=(mode,))) for _ in range(draw(st.integers(4, 8)))]}


def check_hkl_sequence(case):
    """Several hkl conversions with *different* fresh matrices back to back in one process, the operand
    objects of each call released before the next: a result must not depend on matrices used in earlier
    calls (e.g. through a memo keyed on object identity; seeded/C08-s4)."""
    import gc

    labs = [f"ncalls:{len(case['cases'])}"]
    nt = False
    for k, c in enumerate(case["cases"]):
        try:
            sub_labs, sub_nt = check_hkl(c)
        except Violation as v:
            raise Violation(v.kind, f"call {k + 1} of {len(case['cases'])} in one process: {v.message}", v.details) from None
        nt = nt or sub_nt
        if k == 0:
            labs += [x for x in sub_labs if x.startswith("mode:")][:1]
        pass
    return labs, nt


FACETS = [
    Facet("q_formula", check_q_formula, strategy=lambda tier: q_cases(),
          quick=(2, 400), thorough=(16, 2000), min_nontrivial=0.5,
          doc="Q_elements_from_wavelength = (2 pi/lambda)(e_i - e_f) in mpmath; unit, dtype, dims"),
    Facet("q_norm_vs_scalar", check_q_norm, strategy=lambda tier: q_cases(),
          quick=(1, 500), thorough=(16, 1200), min_nontrivial=0.5,
          doc="|Q_vec| = Q_from_wavelength(lambda, two_theta(b_i, b_f)) = 4 pi sin(theta)/lambda"),
    Facet("q_beam_length", check_q_scale, strategy=lambda tier: q_scale_cases(),
          quick=(1, 500), thorough=(16, 1200), min_nontrivial=0.5,
          doc="rescaling either beam: bit-identical for powers of two, to rounding otherwise"),
    Facet("q_rotation", check_q_rotation, strategy=lambda tier: q_rot_cases(),
          quick=(1, 500), thorough=(16, 1200), min_nontrivial=0.5,
          doc="Q(R b_i, R b_f) = R Q(b_i, b_f) for the 24 exact axis rotations and general R"),
    Facet("hkl_inverse", check_hkl, strategy=lambda tier: hkl_cases(),
          quick=(4, 300), thorough=(16, 1600), min_nontrivial=0.5,
          doc="hkl_vec_from_Q_vec(Q, ub_matrix_from_u_and_b(U,B), R): forward error and residual of "
              "2 pi R U B hkl = Q within eps*(128 cond + cond^2)"),
    Facet("hkl_sequence", check_hkl_sequence, strategy=lambda tier: hkl_sequence_cases(),
          quick=(2, 100), thorough=(16, 600), min_nontrivial=0.3,
          doc="4..8 hkl conversions with different fresh matrices back to back (no dependence on earlier calls)"),
    Facet("ub_product", check_ub, strategy=lambda tier: ub_cases(),
          quick=(2, 300), thorough=(16, 1200), min_nontrivial=0.5,
          doc="ub_matrix_from_u_and_b = U.B entrywise vs mpmath"),
    Facet("components_lossless", check_components, strategy=lambda tier: comp_cases(),
          quick=(2, 500), thorough=(16, 2500), min_nontrivial=0.5,
          doc="Q_vec_from_Q_elements / hkl_elements_from_hkl_vec: bit-lossless; mismatched sizes raise DimensionError"),
    Facet("graph_wiring", check_graph, strategy=lambda tier: graph_cases(),
          quick=(2, 150), thorough=(16, 600), min_nontrivial=0.5,
          doc="transform_coords over graph.tof.elastic / elastic_hkl / elastic_Q_vec reaches Q_vec, hkl_vec, h, k, l"),
]

MATCHERS = {}


def selftest():
    units.selftest()
    kin.selftest()
    qvec.selftest()
    # the 24 signed permutations are proper rotations
    assert len(SIGNED_PERMS) == 24
    for P in SIGNED_PERMS:
        assert round(float(np.linalg.det(P))) == 1 and np.array_equal(P @ P.T, np.eye(3))
    # hand-computed hkl: R = 90 deg about z, U = identity, B = diag(1/2, 1/4, 1/8), hkl = (2, 4, 8)
    R = qvec.rot_from_quat([0.0, 0.0, 1.0, 1.0])
    B = qvec.mat([[0.5, 0, 0], [0, 0.25, 0], [0, 0, 0.125]])
    Q = qvec.scale(qvec.TWO_PI, qvec.matvec(qvec.matmul(R, B), qvec.vec([2, 4, 8])))
    assert all(abs(g - e) < mp.mpf(10) ** -40 for g, e in zip(Q, [-qvec.TWO_PI, qvec.TWO_PI, qvec.TWO_PI], strict=True))
    assert _hkl_bound(1.0) == EPS * 129
