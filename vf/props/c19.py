"""C19 — plateau finding and in-phase filtering return exactly the defined selections.

Oracle (written from the property text, not from the implementation): slopes between
neighbouring points are evaluated in *exact rational arithmetic* on the stored inputs; a gap
separates two runs iff |slope| > atol; the expected result is the list of maximal runs with at
least ``min_n_points`` points.  A floating-point evaluation of the same quotient is only used as a
*certificate* that no rounding took place (then the exact comparison, including ``==``, is
binding); where rounding did take place a gap closer than a stated band to the tolerance makes the
case undecidable and it is skipped (counted).
"""

import math
from fractions import Fraction

import numpy as np
from hypothesis import strategies as st

from ..core import Facet, HarnessError, Violation

PROPERTY = "C19"
RULE = (
    "Series (2..500 points) come from two constructive generators. 'lattice': integer-valued y "
    "(float64 or int64, scaled by a power of two), coordinates = strictly increasing integers "
    "with steps 1..4 (non-uniform) scaled by a power of two (float64/float32) or used as int64 / "
    "datetime64[ns|us|s] ticks with offsets up to 2**53+1 / 1.7e18; per gap dy is 0, exactly "
    "atol*dx, atol*dx-1, atol*dx+1 or a jump, so |slope| == atol is hit exactly and all "
    "arithmetic is exact. 'noise': piecewise-constant levels and ramps (segments of 1..40 "
    "points) with noise of 0, 0.5, 0.95, 1.5 or 3 times the tolerance, ramps of 0.6 / 1.5 times "
    "the tolerance, generic float scales, optional atol in a 1000x smaller unit. min_n_points in "
    "1..n as int / sc.index / int32 Variable; optional variances, masks, extra event coordinate, "
    "scalar coordinate; dimension and plateau_dim names vary. Frequencies: n*ref*(1+d) and "
    "ref/n*(1+d), n in -8..8, |d*n| <= rtol/2 or >= 2 rtol, generic values, +-0, exact boundary, "
    "float64 and int64, rtol 1e-9..1e-1. A plateau case is non-trivial when find_plateaus "
    "returned (was compared) and (>= 2 plateaus and >= 1 dropped short run, or some slope is "
    "exactly at the tolerance, or the coordinate is datetime64); a collapse case when >= 1 "
    "plateau with >= 2 points was compared; an in-phase case when >= 1 element was kept and "
    ">= 1 dropped; distinct = distinct descriptor hash."
)
TOLERANCES = {
    "plateau_membership": "exact (bit-identical values, exact rational slope vs atol)",
    "undecidable_band_rel": 1e-12,
    "undecidable_band_rel_float32_coord_or_scaled_unit": 1e-6,
    "collapse_mean_rel_to_max_abs": 1e-12,
    "collapse_interval": "exact",
    "in_phase_band": "2**-52*|q| (multiple), 2**-51*|1/q| (divisor)",
}
ASSUMPTIONS = [
    "coordinates are strictly ascending (equal neighbours would make a slope 0/0; the quantifier "
    "says 'ascending')",
    "a RuntimeError 'exceed the tolerance' from the total-drift guard is accepted and counted, "
    "never required (the property speaks only about calls that return)",
    "a gap whose exact |slope| lies within 1e-12 (1e-6 with float32 coordinates or a converted "
    "atol unit) of atol, and whose floating-point evaluation is not exact, is undecidable: the "
    "case is skipped and counted",
    "in-phase: an element whose distance to the nearest integer differs from rtol by less than "
    "the rounding error of the quotient (including distance == rtol exactly, which the statement "
    "'within the relative tolerance' does not decide) may be kept or dropped",
    "collapse: the mean is compared only for data without masks (scipp excludes masked points "
    "from a mean; the property does not speak about masks)",
    "frequency and reference carry the same unit; the reference is non-zero",
]

BAND64 = Fraction(1, 10**12)
BAND32 = Fraction(1, 10**6)
MEAN_TOL = 1e-12

# ============================================================================ oracle


def _frac(v) -> Fraction:
    return Fraction(int(v)) if isinstance(v, (int, np.integer)) else Fraction(float(v))


def np_arrays(case):
    """Inputs as numpy arrays of the stored dtype (datetime64 as int64 ticks)."""
    xk = case["xkind"]
    if xk in ("int64", "datetime64"):
        x = np.array([int(v) for v in case["x"]], dtype=np.int64)
    else:
        x = np.array(case["x"], dtype=np.float64).astype(xk)
    if case["ydtype"] == "int64":
        y = np.array([int(v) for v in case["y"]], dtype=np.int64)
    else:
        y = np.array(case["y"], dtype=np.float64)
    return x, y


def exact_gaps(x, y, atol: Fraction, certify: bool, band: Fraction):
    """Per gap: (break?, at_boundary?) with break None when undecidable.

    The decision is the definition evaluated exactly: break iff |dy/dx| > atol.
    """
    with np.errstate(all="ignore"):
        sf = (y[1:] - y[:-1]) / (x[1:] - x[:-1])  # only used as exactness certificate
    out = []
    hi = atol * (1 + band)
    lo = atol * (1 - band)
    for i in range(len(x) - 1):
        dx = _frac(x[i + 1]) - _frac(x[i])
        if dx <= 0:
            raise HarnessError("generator produced non-ascending coordinates")
        s = abs((_frac(y[i + 1]) - _frac(y[i])) / dx)
        exact = certify and math.isfinite(sf[i]) and abs(Fraction(float(sf[i]))) == s
        if exact:
            out.append((s > atol, s == atol))
        elif s > hi:
            out.append((True, False))
        elif s < lo:
            out.append((False, False))
        else:
            out.append((None, False))
    return out


def runs_from_breaks(breaks, n):
    """Maximal runs [a, b) of consecutive points not separated by a break."""
    runs = []
    a = 0
    for i, b in enumerate(breaks):
        if b:
            runs.append((a, i + 1))
            a = i + 1
    runs.append((a, n))
    return runs


def expected_plateaus(case):
    """-> (runs kept, all maximal runs, number of boundary gaps) or None when undecidable."""
    x, y = np_arrays(case)
    scale = int(case.get("atol_scale", 1))
    atol = Fraction(float(case["atol"])) / scale
    band = BAND32 if (case["xkind"] == "float32" or scale != 1) else BAND64
    gaps = exact_gaps(x, y, atol, certify=(scale == 1), band=band)
    if any(g[0] is None for g in gaps):
        return None
    all_runs = runs_from_breaks([g[0] for g in gaps], len(x))
    k = int(case["min_n_points"])
    return [r for r in all_runs if r[1] - r[0] >= k], all_runs, sum(1 for g in gaps if g[1])


def in_phase_oracle(x, ref, rtol):
    """True / False / None (undecidable) for: exists integer n with |x/ref - n| < rtol or
    |ref/x - n| < rtol, decided in exact rational arithmetic on the stored numbers."""
    X, R, T = _frac(x), _frac(ref), Fraction(float(rtol))
    if X == 0:
        return True if T > 0 else None  # 0 = 0 * ref

    def dist(q):
        d = q - math.floor(q)
        return min(d, 1 - d)

    q = X / R
    p = R / X
    da, db = dist(q), dist(p)
    ba = abs(q) * Fraction(1, 2**52)
    bb = abs(p) * Fraction(1, 2**51)
    in_a = da < T - ba
    in_b = db < T - bb
    out_a = da > T + ba
    out_b = db > T + bb
    if in_a or in_b:
        return True
    if out_a and out_b:
        return False
    return None


# ============================================================================ strategies

DIMS = ["time", "t", "x"]
PDIMS = ["plateau", "plateau", "custom", "p"]
X_OFFSETS_INT = [0, 0, -1000, 10**9, 2**53 + 1, 1_700_000_000 * 10**9]
MOVES = [0, 0, 0, 1, 1, 2, 3, 4]  # 0 flat, 1 exactly at, 2 just below, 3 just above, 4 jump


def _sizes(draw):
    size = draw(st.sampled_from(["small", "small", "small", "medium", "medium", "large"]))
    return size, {"small": 12, "medium": 80, "large": 500}[size]


def _decor(draw, case, n, float_y):
    case["dim"] = draw(st.sampled_from(DIMS))
    case["plateau_dim"] = draw(st.sampled_from(PDIMS))
    case["variances"] = bool(float_y and draw(st.integers(0, 3)) == 0)
    case["mask_mod"] = draw(st.sampled_from([0, 0, 0, 2, 3, 7]))
    case["aux"] = draw(st.integers(0, 2)) == 0
    case["scalar_coord"] = draw(st.integers(0, 3)) == 0
    case["min_n_points"] = draw(st.one_of(st.integers(1, min(n, 5)), st.integers(1, n)))
    case["mnp_kind"] = draw(st.sampled_from(["int", "int", "index", "int32"]))
    return case


@st.composite
def lattice_series(draw):
    xkind = draw(st.sampled_from(["float64", "float64", "int64", "datetime64", "datetime64", "float32"]))
    size, nmax = _sizes(draw)
    n = draw(st.integers(2, nmax))
    A = draw(st.sampled_from([1, 1, 2, 3, 5]))
    ydtype = draw(st.sampled_from(["float64", "float64", "int64"]))
    codes = draw(st.lists(st.integers(0, 63), min_size=n - 1, max_size=n - 1))
    y0 = draw(st.sampled_from([0, 0, -50, 1000]))
    ey = 0 if ydtype == "int64" else draw(st.integers(-3, 3))
    if xkind in ("float64", "float32"):
        ex = draw(st.integers(-6, 6))
        k0 = 0 if xkind == "float32" else draw(st.sampled_from([0, 0, -7, 1000, 2**40]))
        xunit = "s"
    else:
        ex = 0
        k0 = draw(st.sampled_from(X_OFFSETS_INT))
        xunit = draw(st.sampled_from(["ns", "us", "s"])) if xkind == "datetime64" else "s"
    ks, ys = [k0], [y0]
    base, o = y0, 0
    for c in codes:
        dk = 1 + (c & 3)
        move = MOVES[(c >> 2) & 7]
        sign = -1 if (c >> 5) & 1 else 1
        if o != 0:
            sign = -1 if o > 0 else 1  # pull back towards the level
        if move == 0:
            dy = 0
        elif move == 1:
            dy = sign * A * dk
        elif move == 2:
            dy = sign * (A * dk - 1)
        elif move == 3:
            dy = sign * (A * dk + 1)
        else:
            dy = sign * A * dk * 7
        ks.append(ks[-1] + dk)
        ys.append(ys[-1] + dy)
        if move >= 3:
            base, o = ys[-1], 0
        else:
            o = ys[-1] - base
    xs_, ys_ = 2.0**ex, 2.0**ey
    if xkind in ("float64", "float32"):
        x = [k * xs_ for k in ks]
    else:
        x = ks
    y = ys if ydtype == "int64" else [v * ys_ for v in ys]
    case = {
        "gen": "lattice", "size": size, "xkind": xkind, "xunit": xunit, "x": x,
        "ydtype": ydtype, "yunit": draw(st.sampled_from(["Hz", "m"])), "y": y,
        "atol": A * ys_ / xs_, "atol_scale": 1,
    }
    return _decor(draw, case, n, ydtype == "float64")


SEG_KINDS = {
    # name: (noise as a multiple of the tolerance, ramp slope as a multiple of the tolerance)
    "flat0": (0.0, 0.0), "quiet": (0.5, 0.0), "edge": (0.95, 0.0), "around": (1.5, 0.0),
    "loud": (3.0, 0.0), "ramp_lo": (0.2, 0.6), "ramp_hi": (0.2, 1.5),
}
SEG_WEIGHTED = ["flat0", "quiet", "quiet", "edge", "edge", "around", "loud", "ramp_lo", "ramp_hi"]


@st.composite
def noise_series(draw):
    xkind = draw(st.sampled_from(["float64", "float64", "int64", "datetime64", "float32"]))
    size, nmax = _sizes(draw)
    seglen = {"small": 5, "medium": 20, "large": 40}[size]
    nseg = {"small": 4, "medium": 8, "large": 25}[size]
    segs = draw(st.lists(
        st.tuples(st.sampled_from(SEG_WEIGHTED), st.integers(1, seglen), st.integers(5, 60),
                  st.booleans()),
        min_size=1, max_size=nseg))
    n = min(max(sum(s[1] for s in segs), 2), nmax)
    codes = draw(st.lists(st.integers(0, 17 * 16 - 1), min_size=n, max_size=n))
    atol = 10.0 ** draw(st.floats(-4, 2, allow_nan=False))
    # tolerance given as a whole number of milli-units in an integer variable (e.g. 1500 mHz/s)
    atol_int = draw(st.sampled_from([False, False, False, True]))
    if atol_int:
        atol = max(1, round(atol * 1000)) / 1000
    if xkind in ("float64", "float32"):
        xscale = 10.0 ** draw(st.floats(-3, 3, allow_nan=False))
        x0 = 0.0 if xkind == "float32" else draw(st.sampled_from([0.0, 0.0, -3.5, 1.0e3, 1.7e9])) * (
            1.0 if draw(st.booleans()) else xscale)
        xunit = "s"
    else:
        xscale = 1
        x0 = draw(st.sampled_from(X_OFFSETS_INT))
        xunit = draw(st.sampled_from(["ns", "us", "s"])) if xkind == "datetime64" else "s"
    ks = [0]
    for c in codes[1:]:
        ks.append(ks[-1] + 1 + c // 17)
    if xkind in ("float64", "float32"):
        x = [x0 + k * xscale for k in ks]
        if xkind == "float32":
            x = [float(np.float32(v)) for v in x]
        if any(b <= a for a, b in zip(x, x[1:], strict=False)):
            x = [k * xscale for k in ks]
            if xkind == "float32":
                x = [float(np.float32(v)) for v in x]
        if any(b <= a for a, b in zip(x, x[1:], strict=False)):
            x = [float(k) for k in ks]
    else:
        x = [x0 + k for k in ks]
    # levels, noise, ramps
    y = []
    level = draw(st.sampled_from([0.0, 0.0, -3.0, 14.0, 1000.0])) * atol * xscale
    i = 0
    seg_bounds = []
    for kind, length, jump, up in segs:
        if i >= n:
            break
        c_noise, ramp = SEG_KINDS[kind]
        a = c_noise * atol * xscale / 2
        start = i
        k_start = ks[i]
        while i < n and i - start < length:
            m = codes[i] % 17 - 8
            y.append(level + (m / 8) * a + ramp * atol * xscale * (ks[i] - k_start))
            i += 1
        seg_bounds.append(i - start)
        last = y[-1]
        level = last + (1 if up else -1) * jump * atol * xscale * 16
    while len(y) < n:  # the segments were shorter than 2 points
        y.append(y[-1])
    scale = 1000 if atol_int else draw(st.sampled_from([1, 1, 1, 1000]))
    case = {
        "gen": "noise", "size": size, "xkind": xkind, "xunit": xunit, "x": x,
        "ydtype": "float64", "yunit": draw(st.sampled_from(["Hz", "m"])), "y": y,
        "atol": float(round(atol * scale)) if atol_int else atol * scale, "atol_scale": scale,
        "atol_int": atol_int, "segments": [s[0] for s in segs][:len(seg_bounds)],
    }
    case = _decor(draw, case, n, True)
    # bias min_n_points towards the segment lengths (the interesting size boundary)
    if draw(st.booleans()) and seg_bounds:
        k = draw(st.sampled_from(seg_bounds)) + draw(st.sampled_from([0, 0, 1, -1]))
        case["min_n_points"] = min(max(k, 1), n)
    return case


@st.composite
def collapse_cases(draw):
    case = draw(st.one_of(lattice_series(), noise_series()))
    case["mask_mod"] = 0
    case["min_n_points"] = draw(st.integers(1, 3))
    return case


# ---------------------------------------------------------------------------- in-phase


def _pow2(lo, hi):
    return st.integers(lo, hi).map(lambda e: 2.0**e)


@st.composite
def in_phase_cases(draw):
    dtype = draw(st.sampled_from(["float64", "float64", "float64", "int64"]))
    rtol = draw(st.one_of(
        st.floats(-9, -1, allow_nan=False).map(lambda e: 10.0**e),
        st.sampled_from([1e-9, 1e-6, 1e-3, 0.01, 0.1]),
        _pow2(-20, -4)))
    n_el = draw(st.integers(1, 40))
    freqs, kinds = [], []
    if dtype == "int64" and draw(st.booleans()):
        # integer-dtype frequencies with a float reference that is not an integer (seeded/C19-s2)
        dtype = "int64/float-ref"
        half = draw(st.sampled_from([5, -5, 3, 15, 25, -125, 7]))      # reference = half / 2
        ref = half / 2
        for _ in range(n_el):
            kind = draw(st.sampled_from(["mult", "mult", "near", "generic", "zero"]))
            n = draw(st.integers(-8, 8))
            if kind == "mult":
                v = (2 * n) * half // 2          # even multiples of ref are integers
            elif kind == "near":
                v = n * half + draw(st.integers(-2, 2))
            elif kind == "generic":
                v = draw(st.integers(-10 * abs(half), 10 * abs(half)))
            else:
                v = 0
            freqs.append(int(v))
            kinds.append(kind)
    elif dtype == "int64":
        ref = draw(st.sampled_from([4, -4, 14, 60, -60, 1000, 3600, 1]))
        for _ in range(n_el):
            kind = draw(st.sampled_from(["mult", "mult", "div", "near", "generic", "zero"]))
            n = draw(st.integers(-8, 8))
            if kind == "mult":
                v = n * ref
            elif kind == "div":
                divs = [d for d in range(1, 9) if ref % d == 0]
                v = ref // (draw(st.sampled_from(divs)) * (1 if n >= 0 else -1))
            elif kind == "near":
                v = n * ref + draw(st.integers(-3, 3))
            elif kind == "generic":
                v = draw(st.integers(-10 * abs(ref), 10 * abs(ref)))
            else:
                v = 0
            freqs.append(int(v))
            kinds.append(kind)
    else:
        ref = draw(st.one_of(
            st.sampled_from([14.0, -14.0, 4.0, 1.2, 60.0, 1.0, 0.1]),
            st.floats(-3, 3, allow_nan=False).map(lambda e: 10.0**e),
            st.floats(-3, 3, allow_nan=False).map(lambda e: -(10.0**e))))
        near = st.floats(-0.5, 0.5, allow_nan=False)              # |d*n| <= rtol/2
        far = st.floats(0, 1, allow_nan=False)                    # 2 rtol .. 0.45, log-uniform
        for _ in range(n_el):
            kind = draw(st.sampled_from([
                "mult_near", "mult_near", "mult_far", "mult_far", "div_near", "div_near",
                "div_far", "generic", "zero", "boundary"]))
            n = draw(st.integers(-8, 8))
            sgn = 1.0 if draw(st.booleans()) else -1.0
            if kind in ("mult_far", "div_far"):
                t = draw(far)
                e = sgn * math.exp(math.log(2 * rtol) + t * (math.log(0.45) - math.log(2 * rtol)))
            else:
                e = draw(near) * rtol
            if kind.startswith("mult"):
                v = ref * (n + e)
            elif kind.startswith("div"):
                d = n + e
                v = ref / d if d != 0 else 0.0
            elif kind == "generic":
                v = sgn * abs(ref) * 10.0 ** draw(st.floats(-3, 3, allow_nan=False))
            elif kind == "zero":
                v = sgn * 0.0
            else:  # exact boundary: q = n + rtol or 1/q = n + rtol (exact for power-of-two rtol/ref)
                v = ref * (n + sgn * rtol) if draw(st.booleans()) else (
                    ref / (n + sgn * rtol) if n != 0 else ref * sgn * rtol)
            if not math.isfinite(v):
                v = 0.0
            freqs.append(float(v))
            kinds.append(kind)
    return {
        "dtype": dtype, "ref": ref, "rtol": rtol, "freqs": freqs, "kinds": kinds,
        "unit": draw(st.sampled_from(["Hz", "Hz", "dimensionless", "kHz"])),
        "coord": draw(st.sampled_from(["none", "float", "datetime"])),
        "mask_mod": draw(st.sampled_from([0, 0, 2, 3])),
        "dim": draw(st.sampled_from(DIMS)),
    }


# ============================================================================ building inputs


def _xvar(case, x):
    import scipp as sc

    dim = case["dim"]
    if case["xkind"] == "datetime64":
        return sc.array(dims=[dim], values=x.astype(f"datetime64[{case['xunit']}]"))
    return sc.array(dims=[dim], values=x, unit=case["xunit"], dtype=case["xkind"])


def variances_of(n):
    return np.array([0.25 + (i % 5) for i in range(n)], dtype=np.float64)


def aux_of(n):
    return np.array([((i * 37) % 101) / 4.0 - 3.0 for i in range(n)], dtype=np.float64)


def mask_of(n, mod):
    return np.array([i % mod == 0 for i in range(n)], dtype=bool)


def build_series(case):
    import scipp as sc

    x, y = np_arrays(case)
    dim = case["dim"]
    n = len(x)
    data = sc.array(dims=[dim], values=y, unit=case["yunit"], dtype=case["ydtype"],
                    variances=variances_of(n) if case["variances"] else None)
    da = sc.DataArray(data, coords={dim: _xvar(case, x)})
    if case["aux"]:
        da.coords["aux"] = sc.array(dims=[dim], values=aux_of(n), unit="m")
    if case["scalar_coord"]:
        da.coords["sample_temperature"] = sc.scalar(3.5, unit="K")
    if case["mask_mod"]:
        da.masks["bad"] = sc.array(dims=[dim], values=mask_of(n, case["mask_mod"]))
    return da, x, y


def build_atol(case):
    import scipp as sc

    yu = case["yunit"]
    if int(case.get("atol_scale", 1)) == 1000:
        yu = "m" + yu
    elif int(case.get("atol_scale", 1)) != 1:
        raise HarnessError("unsupported atol scale")
    if case.get("atol_int"):
        return sc.scalar(int(case["atol"]), unit=sc.Unit(yu) / sc.Unit(case["xunit"]), dtype="int64")
    return sc.scalar(float(case["atol"]), unit=sc.Unit(yu) / sc.Unit(case["xunit"]))


def build_mnp(case):
    import scipp as sc

    k = int(case["min_n_points"])
    if case["mnp_kind"] == "index":
        return sc.index(k)
    if case["mnp_kind"] == "int32":
        return sc.scalar(k, unit=None, dtype="int32")
    return k


# ============================================================================ comparisons


def _same_values(a, b) -> bool:
    a, b = np.asarray(a), np.asarray(b)
    if a.shape != b.shape:
        return False
    if a.dtype.kind == "f":
        return bool(np.array_equal(a.view(f"u{a.dtype.itemsize}"),
                                   np.asarray(b, dtype=a.dtype).view(f"u{a.dtype.itemsize}")))
    return bool(np.array_equal(a, b))


def _ticks(var):
    """numpy values of a scipp variable; datetime64 as int64 ticks."""
    v = np.asarray(var.values)
    if v.dtype.kind == "M":
        return v.astype(np.int64)
    return v


def _expect_var(got, ref, what):
    """got must equal the input variable slice ref: dims, dtype, unit, values, variances."""
    if got.dims != ref.dims or got.shape != ref.shape:
        raise Violation("content", f"{what}: dims/shape {got.sizes} != {ref.sizes}")
    if got.dtype != ref.dtype:
        raise Violation("content", f"{what}: dtype {got.dtype} != {ref.dtype}")
    if got.unit != ref.unit:
        raise Violation("content", f"{what}: unit {got.unit} != {ref.unit}")
    if not _same_values(_ticks(got), _ticks(ref)):
        raise Violation("content", f"{what}: values changed: {_ticks(got)[:8]} vs {_ticks(ref)[:8]}")
    if (got.variances is None) != (ref.variances is None):
        raise Violation("content", f"{what}: variances {'lost' if got.variances is None else 'appeared'}")
    if got.variances is not None and not _same_values(got.variances, ref.variances):
        raise Violation("content", f"{what}: variances changed")


def compare_plateaus(result, da, x, case, runs, all_runs):
    """``result`` must be exactly the expected runs [a, b) of ``da``."""
    import scipp as sc

    dim, pdim = case["dim"], case["plateau_dim"]
    if result.dims != (pdim,):
        raise Violation("structure", f"result dims {result.dims}, expected ({pdim!r},)")
    if result.bins is None:
        raise Violation("structure", "result is not binned data")
    nb = result.sizes[pdim]
    # locate every returned bin in the input through its (strictly ascending) coordinate
    index_of = {int(v) if x.dtype.kind == "i" else float(v): i for i, v in enumerate(x)}
    got_runs = []
    contents = []
    for k in range(nb):
        content = result[pdim, k].value
        contents.append(content)
        if content.dims != (dim,):
            raise Violation("structure", f"bin {k} has dims {content.dims}, expected ({dim!r},)")
        if dim not in content.coords:
            raise Violation("content", f"bin {k} lost the coordinate {dim!r}")
        cx = _ticks(content.coords[dim])
        if len(cx) == 0:
            got_runs.append(None)
            continue
        idx = [index_of.get(int(v) if x.dtype.kind == "i" else float(v)) for v in cx]
        if any(i is None for i in idx):
            raise Violation("content", f"bin {k} holds a coordinate value that is not in the input")
        if idx != list(range(idx[0], idx[0] + len(idx))):
            raise Violation("not-consecutive", f"bin {k} holds input points {idx[:12]}, not a run of consecutive points")
        got_runs.append((idx[0], idx[-1] + 1))
    if got_runs != runs:
        exp_set, got_set = set(runs), set(r for r in got_runs if r)
        if None in got_runs:
            kind = "empty-bin"
        elif sorted(got_set) == sorted(exp_set) and len(got_runs) == len(runs):
            kind = "order"
        elif got_set < exp_set:
            kind = "missing-plateau"
        elif got_set > exp_set and all(r in all_runs for r in got_set):
            kind = "short-plateau-returned"
        else:
            kind = "wrong-runs"
        raise Violation(
            kind,
            f"plateaus as index ranges [a,b): got {got_runs[:10]}{'...' if len(got_runs) > 10 else ''}, "
            f"definition gives {runs[:10]}{'...' if len(runs) > 10 else ''} "
            f"(min_n_points={case['min_n_points']}, {len(all_runs)} maximal runs)",
            {"got": [list(r) if r else None for r in got_runs[:50]], "expected": [list(r) for r in runs[:50]]},
        )
    # contents unchanged
    dep = [c for c in da.coords if dim in da.coords[c].dims]
    for k, (a, b) in enumerate(runs):
        content = contents[k]
        ref = da[dim, a:b]
        _expect_var(content.data, ref.data, f"bin {k} data")
        if sorted(content.coords) != sorted(dep):
            raise Violation("coords", f"bin {k} coords {sorted(content.coords)}, input has {sorted(dep)}")
        for c in dep:
            _expect_var(content.coords[c], ref.coords[c], f"bin {k} coord {c!r}")
        if sorted(content.masks) != sorted(da.masks):
            raise Violation("masks", f"bin {k} masks {sorted(content.masks)}, input has {sorted(da.masks)}")
        for m in da.masks:
            _expect_var(content.masks[m], ref.masks[m], f"bin {k} mask {m!r}")
    # outer coordinates: the plateau index and nothing that was not in the input
    if pdim not in result.coords:
        raise Violation("coords", f"no {pdim!r} coordinate on the result")
    pc = result.coords[pdim]
    if pc.dims != (pdim,) or pc.unit is not None or pc.dtype != sc.DType.int64 or not np.array_equal(
            pc.values, np.arange(nb)):
        raise Violation("coords", f"{pdim!r} coordinate is {pc.values[:10]} [{pc.unit}, {pc.dtype}], expected 0..{nb - 1} without unit")
    allowed = {pdim} | {c for c in da.coords if dim not in da.coords[c].dims}
    extra = [c for c in result.coords if c not in allowed]
    if extra:
        raise Violation("coords", f"result carries coordinates that are not in the input: {extra}")


def next_representable(v, kind):
    if kind in ("float64", "float32"):
        t = np.dtype(kind).type
        return np.nextafter(t(v), t(np.inf))
    return int(v) + 1


def compare_collapsed(collapsed, da, case, runs, coord, check_mean, stats):
    dim, pdim = case["dim"], case["plateau_dim"]
    if collapsed.dims != (pdim,) or collapsed.sizes[pdim] != len(runs):
        raise Violation("collapse-structure", f"collapsed sizes {dict(collapsed.sizes)}, expected {{{pdim!r}: {len(runs)}}}")
    if collapsed.bins is not None:
        raise Violation("collapse-structure", "collapsed data is still binned")
    if collapsed.unit != da.unit:
        raise Violation("collapse-unit", f"collapsed unit {collapsed.unit}, data unit {da.unit}")
    if coord not in collapsed.coords:
        raise Violation("collapse-structure", f"no coordinate {coord!r} on the collapsed data")
    cv = collapsed.coords[coord]
    src = da.coords[coord]
    other = [d for d in cv.dims if d != pdim]
    if set(cv.dims) != {pdim, *other} or len(other) != 1 or cv.sizes[other[0]] != 2 or cv.sizes[pdim] != len(runs):
        raise Violation("collapse-structure", f"interval coordinate has sizes {dict(cv.sizes)}")
    if cv.dtype != src.dtype or cv.unit != src.unit:
        raise Violation("collapse-interval", f"interval coordinate is {cv.dtype} [{cv.unit}], points are {src.dtype} [{src.unit}]")
    edges = _ticks(cv.transpose([pdim, other[0]]).copy())
    pts = _ticks(src)
    kind = "int64" if pts.dtype.kind == "i" else str(pts.dtype)
    yv = np.asarray(da.values)
    means = np.asarray(collapsed.values, dtype=np.float64)
    for k, (a, b) in enumerate(runs):
        lo, hi = edges[k, 0], edges[k, 1]
        p = pts[a:b]
        if not (np.all(lo <= p) and np.all(p < hi)):
            bad = [v for v in p if not (lo <= v < hi)][:3]
            raise Violation("collapse-interval-containment",
                            f"plateau {k}: interval [{lo!r}, {hi!r}) of {coord!r} does not contain its points {bad!r} "
                            f"(points span {p.min()!r} .. {p.max()!r})")
        if lo != p.min() or hi != next_representable(p.max(), kind):
            raise Violation("collapse-interval-tight",
                            f"plateau {k}: interval [{lo!r}, {hi!r}) of {coord!r}, tightest half-open interval is "
                            f"[{p.min()!r}, {next_representable(p.max(), kind)!r})")
        if check_mean:
            vals = [_frac(v) for v in yv[a:b]]
            ref = sum(vals) / len(vals)
            scale = max(abs(float(v)) for v in yv[a:b])
            err = abs(float(Fraction(float(means[k])) - ref)) if math.isfinite(means[k]) else math.inf
            if scale > 0:
                stats["mean_err"] = max(stats.get("mean_err", 0.0), err / scale)
            if not err <= MEAN_TOL * scale:
                raise Violation("collapse-mean",
                                f"plateau {k}: mean {means[k]!r}, exact mean of its {b - a} points {float(ref)!r} "
                                f"(error {err:.3e} > {MEAN_TOL:g} * {scale:.3g})")


# ============================================================================ checks


def series_labels(case, n):
    labs = ["gen:" + case["gen"], "x:" + case["xkind"] + ("[" + case["xunit"] + "]" if case["xkind"] == "datetime64" else ""),
            "y:" + case["ydtype"], "n:" + ("2" if n == 2 else "3-12" if n <= 12 else "13-80" if n <= 80 else "81-500"),
            "mnp:" + case["mnp_kind"]]
    if case["variances"]:
        labs.append("variances")
    if case["mask_mod"]:
        labs.append("masks")
    if case["aux"]:
        labs.append("aux-coord")
    if case["scalar_coord"]:
        labs.append("scalar-coord")
    if int(case.get("atol_scale", 1)) != 1:
        labs.append("atol-unit-scaled")
    if case.get("atol_int"):
        labs.append("atol-int64")
    if case["plateau_dim"] != "plateau":
        labs.append("custom-plateau-dim")
    if int(case["min_n_points"]) == n:
        labs.append("mnp==n")
    if int(case["min_n_points"]) == 1:
        labs.append("mnp==1")
    return labs


def check_plateaus(case):
    from scippneutron.chopper.filtering import collapse_plateaus, find_plateaus

    da, x, _ = build_series(case)
    n = len(x)
    labs = series_labels(case, n)
    exp = expected_plateaus(case)
    if exp is None:
        return [*labs, "undecidable-skip"], False
    runs, all_runs, n_boundary = exp
    dropped = len(all_runs) - len(runs)
    labs.append("plateaus:" + ("0" if not runs else "1" if len(runs) == 1 else "2-5" if len(runs) <= 5 else "6+"))
    labs.append("dropped-short:" + ("0" if dropped == 0 else "1+"))
    if n_boundary:
        labs.append("slope==atol")
    if any(b - a == int(case["min_n_points"]) for a, b in runs):
        labs.append("run-len==mnp")
    if any(b - a == int(case["min_n_points"]) - 1 for a, b in all_runs):
        labs.append("run-len==mnp-1")
    atol = build_atol(case)
    try:
        result = find_plateaus(da, atol=atol, min_n_points=build_mnp(case), plateau_dim=case["plateau_dim"])
    except RuntimeError as e:
        if "exceed the tolerance" not in str(e):
            raise
        return [*labs, "drift-guard-raised"], False
    labs.append("returned")
    compare_plateaus(result, da, x, case, runs, all_runs)
    # the call leaves its arguments as they were, so the same tolerance object selects the same
    # runs when it is used again (seeded/C19-s4: a tolerance scaled in place by the drift guard)
    fresh = build_atol(case)
    if not (atol.unit == fresh.unit and atol.dtype == fresh.dtype and _same_values(atol.values, fresh.values)):
        raise Violation("argument-modified",
                        f"find_plateaus changed the caller's atol: {fresh.value!r} [{fresh.unit}] -> {atol.value!r} [{atol.unit}]")
    pristine, _, _ = build_series(case)
    _expect_var(da.data, pristine.data, "input data after the call")
    _expect_var(da.coords[case["dim"]], pristine.coords[case["dim"]], "input coordinate after the call")
    again = find_plateaus(da, atol=atol, min_n_points=build_mnp(case), plateau_dim=case["plateau_dim"])
    compare_plateaus(again, da, x, case, runs, all_runs)
    # documented pipeline: collapse what find_plateaus returned
    stats = {}
    collapsed = collapse_plateaus(result, coord=case["dim"])
    compare_collapsed(collapsed, da, case, runs, case["dim"], check_mean=not case["mask_mod"], stats=stats)
    nontrivial = (len(runs) >= 2 and dropped >= 1) or n_boundary > 0 or case["xkind"] == "datetime64"
    return labs, bool(nontrivial)


def check_collapse(case):
    import scipp as sc
    from scippneutron.chopper.filtering import collapse_plateaus

    da, x, _ = build_series(case)
    n = len(x)
    labs = series_labels(case, n)
    exp = expected_plateaus(case)
    if exp is None:
        return [*labs, "undecidable-skip"], False
    runs, _, _ = exp
    pdim, dim = case["plateau_dim"], case["dim"]
    begin = sc.array(dims=[pdim], values=np.array([r[0] for r in runs], dtype=np.int64), unit=None, dtype="int64")
    end = sc.array(dims=[pdim], values=np.array([r[1] for r in runs], dtype=np.int64), unit=None, dtype="int64")
    binned = sc.DataArray(sc.bins(begin=begin, end=end, dim=dim, data=da),
                          coords={pdim: sc.arange(pdim, len(runs), unit=None)})
    stats = {}
    collapsed = collapse_plateaus(binned, coord=dim)
    compare_collapsed(collapsed, da, case, runs, dim, check_mean=True, stats=stats)
    if case["aux"]:
        labs.append("collapse-on-unsorted-coord")
        collapsed = collapse_plateaus(binned, coord="aux")
        compare_collapsed(collapsed, da, case, runs, "aux", check_mean=True, stats=stats)
    labs.append("plateaus:" + ("0" if not runs else "1" if len(runs) == 1 else "2-5" if len(runs) <= 5 else "6+"))
    if any(b - a == 1 for a, b in runs):
        labs.append("single-point-plateau")
    pts = _ticks(da.coords[dim])
    if any(pts[b - 1] <= 0 for _, b in runs):
        labs.append("max<=0")
    e = stats.get("mean_err", 0.0)
    labs.append("mean-err:" + ("0" if e == 0 else "<1e-15" if e < 1e-15 else "<1e-14" if e < 1e-14 else "<1e-13" if e < 1e-13 else ">=1e-13"))
    return labs, any(b - a >= 2 for a, b in runs)


def check_in_phase(case):
    import scipp as sc
    from scippneutron.chopper.filtering import filter_in_phase

    dim, dtype = case["dim"], case["dtype"]
    data_dtype = "int64" if dtype.startswith("int64") else dtype
    freqs = case["freqs"]
    n = len(freqs)
    vals = np.array([int(v) for v in freqs], dtype=np.int64) if data_dtype == "int64" else np.array(freqs, dtype=np.float64)
    unit = case["unit"]
    da = sc.DataArray(sc.array(dims=[dim], values=vals, unit=unit, dtype=data_dtype),
                      coords={"idx": sc.arange(dim, n, unit=None)})
    if case["coord"] == "float":
        da.coords[dim] = sc.array(dims=[dim], values=np.arange(n) * 0.75 - 1.0, unit="s")
    elif case["coord"] == "datetime":
        da.coords[dim] = sc.array(dims=[dim], values=(np.arange(n) * 3 + 1_700_000_000).astype("datetime64[s]"))
    if case["mask_mod"]:
        da.masks["bad"] = sc.array(dims=[dim], values=mask_of(n, case["mask_mod"]))
    ref = case["ref"]
    ref_dtype = "float64" if dtype == "int64/float-ref" else dtype
    reference = sc.scalar(int(ref) if dtype == "int64" else float(ref), unit=unit, dtype=ref_dtype)
    rtol = sc.scalar(float(case["rtol"]))
    verdict = [in_phase_oracle(vals[i], ref, case["rtol"]) for i in range(n)]
    with np.errstate(all="ignore"):
        out = filter_in_phase(da, reference=reference, rtol=rtol)
    if out.dims != (dim,):
        raise Violation("structure", f"result dims {out.dims}, expected ({dim!r},)")
    if "idx" not in out.coords:
        raise Violation("coords", "result lost a coordinate of the input")
    kept = [int(i) for i in out.coords["idx"].values]
    if any(b <= a for a, b in zip(kept, kept[1:], strict=False)) or any(i < 0 or i >= n for i in kept):
        raise Violation("order", f"kept elements are not a subsequence of the input: indices {kept[:20]}")
    kept_set = set(kept)
    for i in range(n):
        q = float(vals[i]) / float(ref)
        if verdict[i] is True and i not in kept_set:
            raise Violation("in-phase-dropped",
                            f"element {i} = {vals[i]!r} (ref {ref!r}, x/ref = {q!r}, ref/x = {(1 / q if q else math.inf)!r}) is within rtol "
                            f"{case['rtol']!r} of an integer multiple/divisor but was removed", {"index": i})
        if verdict[i] is False and i in kept_set:
            raise Violation("out-of-phase-kept",
                            f"element {i} = {vals[i]!r} (ref {ref!r}, x/ref = {q!r}, ref/x = {(1 / q if q else math.inf)!r}) is not within rtol "
                            f"{case['rtol']!r} of any integer multiple/divisor but was kept", {"index": i})
    expect = da[dim, 0:0] if not kept else sc.concat([da[dim, i:i + 1] for i in kept], dim)
    _expect_var(out.data, expect.data, "kept data")
    if sorted(out.coords) != sorted(da.coords):
        raise Violation("coords", f"result coords {sorted(out.coords)}, input has {sorted(da.coords)}")
    for c in da.coords:
        _expect_var(out.coords[c], expect.coords[c], f"coord {c!r}")
    if sorted(out.masks) != sorted(da.masks):
        raise Violation("masks", f"result masks {sorted(out.masks)}, input has {sorted(da.masks)}")
    for m in da.masks:
        _expect_var(out.masks[m], expect.masks[m], f"mask {m!r}")
    labs = ["dtype:" + dtype, "unit:" + unit, "coord:" + case["coord"],
            "rtol:" + ("<=1e-6" if case["rtol"] <= 1e-6 else "<=1e-3" if case["rtol"] <= 1e-3 else "<=1e-1"),
            "ref:" + ("neg" if ref < 0 else "pos")]
    for i in range(n):
        k = case["kinds"][i]
        v = verdict[i]
        labs.append(f"{k}:" + ("in" if v is True else "out" if v is False else ("undecided-kept" if i in kept_set else "undecided-dropped")))
        if v is not None and vals[i] != 0:
            qa = abs(float(vals[i]) / float(ref))
            if v and qa > 1.5:
                labs.append("in:multiple")
            elif v and qa < 0.75:
                labs.append("in:divisor-or-zero-multiple")
        if (vals[i] < 0) != (ref < 0) and vals[i] != 0:
            labs.append("opposite-sign")
    n_in = sum(1 for v in verdict if v is True)
    n_out = sum(1 for v in verdict if v is False)
    return labs, n_in >= 1 and n_out >= 1


# ============================================================================ facets

FACETS = [
    Facet("plateaus_exact", check_plateaus, strategy=lambda tier: lattice_series(),
          quick=(4, 250), thorough=(16, 1500), min_nontrivial=0.3,
          doc="exact-arithmetic series hitting |slope| == atol; bins == maximal runs with >= min_n_points "
              "points, contents unchanged; pipeline collapse"),
    Facet("plateaus_noise", check_plateaus, strategy=lambda tier: noise_series(),
          quick=(4, 250), thorough=(16, 1500), min_nontrivial=0.1,
          doc="levels / ramps with noise below and around the tolerance, generic float scales, atol in another unit"),
    Facet("collapse", check_collapse, strategy=lambda tier: collapse_cases(),
          quick=(2, 300), thorough=(16, 1000), min_nontrivial=0.3,
          doc="collapse_plateaus on independently built bins: mean, [min, next-after max) interval, containment"),
    Facet("in_phase", check_in_phase, strategy=lambda tier: in_phase_cases(),
          quick=(2, 500), thorough=(16, 2500), min_nontrivial=0.3,
          doc="kept <=> within rtol of an integer multiple or divisor of the reference; order, coords, masks kept"),
]


# ============================================================================ self-test


def selftest():
    base = {"xkind": "int64", "xunit": "s", "ydtype": "int64", "atol_scale": 1}
    # from the statement: slopes 0,1,1,0,0 against 0.1 -> runs {0,1},{2},{3,4,5}
    c = dict(base, x=[0, 1, 2, 3, 4, 5], y=[0, 0, 1, 2, 2, 2], atol=0.1, min_n_points=2)
    runs, all_runs, nb = expected_plateaus(c)
    assert runs == [(0, 2), (3, 6)] and all_runs == [(0, 2), (2, 3), (3, 6)] and nb == 0, (runs, all_runs)
    # slope exactly at the tolerance stays inside; non-uniform steps
    c = dict(base, x=[0, 1, 3, 4, 8], y=[0, 1, 3, 5, 5], atol=1.0, min_n_points=1)
    runs, all_runs, nb = expected_plateaus(c)
    assert runs == [(0, 3), (3, 5)] and nb == 2, (runs, nb)
    c["min_n_points"] = 3
    assert expected_plateaus(c)[0] == [(0, 3)]
    c["min_n_points"] = 4
    assert expected_plateaus(c)[0] == []
    # negative slopes count by magnitude; float data
    c = dict(base, ydtype="float64", xkind="float64", x=[0.0, 0.5, 1.0, 1.5], y=[0.0, -0.25, -1.0, -1.0],
             atol=0.5, min_n_points=1)
    assert expected_plateaus(c)[0] == [(0, 2), (2, 4)]
    # inexact arithmetic right at the tolerance is reported as undecidable, not guessed
    c = dict(base, ydtype="float64", xkind="float64", x=[0.1, 0.4], y=[0.2, 0.5], atol=1.0, min_n_points=1)
    assert expected_plateaus(c) is None
    # in-phase: examples whose answer follows from the statement
    got = [in_phase_oracle(v, 4, 0.1) for v in [7, 8, 3, 2, 4, 0, -8, 1, 12.3, 12.5]]
    assert got == [False, True, False, True, True, True, True, True, True, False], got
    got = [in_phase_oracle(v, 1.2, 0.1) for v in [0.23, 0.6, 1.2, 3.3, 2.4]]
    assert got == [False, True, True, False, True], got
    assert in_phase_oracle(8.25, 4.0, 0.0625) is None  # distance == rtol exactly: not decided
    assert in_phase_oracle(8.26, 4.0, 0.0625) is False and in_phase_oracle(8.24, 4.0, 0.0625) is True
    assert in_phase_oracle(4.25, 4.0, 0.0625) is True  # 4/4.25 = 0.94 is within 0.0625 of 1 (divisor side)
    assert next_representable(1.0, "float64") == 1.0 + 2.0**-52 and next_representable(7, "int64") == 8
    assert next_representable(0.0, "float64") == 5e-324
