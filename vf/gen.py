"""Shared Hypothesis strategies producing JSON-serialisable primitives."""

import math

from hypothesis import strategies as st


def logfloat(lo_exp: float, hi_exp: float):
    """Positive floats, log-uniform over 10**lo_exp .. 10**hi_exp, boundary-biased."""
    lo_i, hi_i = math.ceil(lo_exp), math.floor(hi_exp)
    generic = st.floats(lo_exp, hi_exp, allow_nan=False).map(lambda e: 10.0**e)
    parts = [generic, generic, generic]
    if lo_i <= hi_i:
        parts.append(st.integers(lo_i, hi_i).map(lambda e: float(10.0**e)))
        # few mantissa bits
        parts.append(
            st.tuples(st.integers(lo_i, hi_i), st.sampled_from([1.5, 2.0, 3.0, 5.0, 7.0, 1.25]))
            .map(lambda t: min(max(t[1] * 10.0 ** t[0], 10.0**lo_exp), 10.0**hi_exp))
        )
    return st.one_of(*parts)


def signed(s):
    return st.tuples(s, st.booleans()).map(lambda t: -t[0] if t[1] else t[0])


def unit_vector():
    """Uniform-ish direction on the sphere, with axis-aligned directions mixed in."""
    generic = st.tuples(
        st.floats(-1, 1, allow_nan=False), st.floats(0, 2 * math.pi, allow_nan=False)
    ).map(_from_z_phi)
    axes = st.sampled_from(
        [[1.0, 0.0, 0.0], [0.0, 1.0, 0.0], [0.0, 0.0, 1.0],
         [-1.0, 0.0, 0.0], [0.0, -1.0, 0.0], [0.0, 0.0, -1.0]]
    )
    return st.one_of(generic, generic, generic, generic, axes)


def _from_z_phi(t):
    z, phi = t
    r = math.sqrt(max(0.0, 1 - z * z))
    return [r * math.cos(phi), r * math.sin(phi), z]


def quaternion():
    return st.tuples(*[st.floats(-1, 1, allow_nan=False)] * 4).filter(
        lambda q: sum(x * x for x in q) > 1e-3
    ).map(list)


def rotmat_from_quat(q):
    import numpy as np

    w, x, y, z = np.asarray(q, dtype=float) / np.linalg.norm(q)
    return np.array(
        [
            [1 - 2 * (y * y + z * z), 2 * (x * y - z * w), 2 * (x * z + y * w)],
            [2 * (x * y + z * w), 1 - 2 * (x * x + z * z), 2 * (y * z - x * w)],
            [2 * (x * z - y * w), 2 * (y * z + x * w), 1 - 2 * (x * x + y * y)],
        ]
    )


SIGNED_PERMS = []


def _init_perms():
    import itertools

    import numpy as np

    for perm in itertools.permutations(range(3)):
        for signs in itertools.product([1, -1], repeat=3):
            m = np.zeros((3, 3))
            for i, p in enumerate(perm):
                m[i, p] = signs[i]
            if round(np.linalg.det(m)) == 1:
                SIGNED_PERMS.append(m)


_init_perms()  # 24 exact rotations
