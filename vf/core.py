"""Runner plumbing: facets, sharded execution, evidence, replay, known findings.

A property module (vf/props/cNN.py) exposes

    PROPERTY = "C01"
    RULE     = "how cases are generated and what makes one non-trivial"
    FACETS   = [Facet(...), ...]
    MATCHERS = {"name": lambda case, violation: bool}      (optional)
    ASSUMPTIONS = [...]                                     (optional)
    def selftest(): ...                                     (optional; oracle self-tests)

A facet's ``check(case)`` takes a JSON-serialisable case descriptor, runs the code under
test and the oracle, and returns ``(labels, nontrivial)``; it raises ``Violation`` when the
property is broken.  Everything random comes from Hypothesis strategies seeded from
VERIF_SEED; replay bypasses Hypothesis and calls ``check`` on the stored descriptor.
"""

from __future__ import annotations

import hashlib
import importlib
import json
import os
import subprocess
import sys
import time
import traceback
from collections import Counter
from dataclasses import dataclass, field
from pathlib import Path
from typing import Any, Callable

ROOT = Path(__file__).resolve().parent.parent
DEPS = ROOT / ".deps"
WHEELS = "/opt/veriftools/wheels"


def repo_root() -> Path:
    return Path(os.environ.get("VERIF_REPO", "/repo")).resolve()


def repo_src() -> Path:
    return repo_root() / "src"


def ensure_deps() -> None:
    """Install mpmath + hypothesis into /verif/.deps when missing (offline wheelhouse)."""
    if not (DEPS / "atheris").is_dir() and (DEPS / "mpmath").is_dir():
        # optional (thorough-tier fuzzing only); never fatal
        subprocess.run([sys.executable, "-m", "pip", "install", "--quiet", "--no-index", "--find-links", WHEELS,
                        "--target", str(DEPS), "atheris"], check=False, stdout=subprocess.DEVNULL,
                       stderr=subprocess.DEVNULL)
    if not (DEPS / "mpmath").is_dir() or not (DEPS / "hypothesis").is_dir():
        DEPS.mkdir(exist_ok=True)
        subprocess.run(
            [
                sys.executable, "-m", "pip", "install", "--quiet", "--no-index",
                "--find-links", WHEELS, "--target", str(DEPS), "--upgrade",
                "mpmath", "hypothesis",
            ],
            check=True,
            stdout=subprocess.DEVNULL,
        )


def bootstrap() -> None:
    """Put .deps and the tree under test first on sys.path."""
    for p in (str(DEPS), str(repo_src())):
        if p in sys.path:
            sys.path.remove(p)
    sys.path.insert(0, str(DEPS))
    sys.path.insert(0, str(repo_src()))
    os.environ.setdefault("OMP_NUM_THREADS", "1")
    os.environ.setdefault("OPENBLAS_NUM_THREADS", "1")
    os.environ.setdefault("MKL_NUM_THREADS", "1")


def assert_tree() -> None:
    import scippneutron

    here = Path(scippneutron.__file__).resolve()
    if repo_src() not in here.parents:
        raise HarnessError(f"scippneutron imported from {here}, expected under {repo_src()}")


def clear_package_caches() -> None:
    """Clear every functools cache found in scippneutron.atoms (state must not leak between cases).
    Written against whatever caches exist, so that a change of the caching strategy in the package
    does not break the harness."""
    import scippneutron.atoms as atoms

    seen = set()
    stack = [atoms]
    while stack:
        obj = stack.pop()
        for name in dir(obj):
            if name.startswith("__"):
                continue
            try:
                attr = getattr(obj, name)
            except Exception:  # noqa: BLE001
                continue
            if id(attr) in seen:
                continue
            seen.add(id(attr))
            if hasattr(attr, "cache_clear") and callable(attr.cache_clear):
                attr.cache_clear()
            elif isinstance(attr, type) and getattr(attr, "__module__", "") == atoms.__name__:
                stack.append(attr)


class Violation(Exception):
    def __init__(self, kind: str, message: str, details: Any = None):
        super().__init__(f"{kind}: {message}")
        self.kind = kind
        self.message = message
        self.details = details


class attributed:
    """Context manager: an exception raised inside is attributed to the package even if its traceback
    does not pass through the package -- used around scipp calls that *execute a graph the package
    built* on complete input (a graph that lacks a rule dies inside scipp's transform_coords)."""

    def __init__(self, what: str):
        self.what = what

    def __enter__(self):
        return self

    def __exit__(self, et, e, tb):
        if e is None or isinstance(e, (Violation, HarnessError)) or not isinstance(e, Exception):
            return False
        raise Violation("unexpected-exception:" + et.__name__, f"{self.what}: {str(e)[:300]}") from e


class HarnessError(Exception):
    pass


class _Fail(Exception):
    """Raised inside the Hypothesis test body so that Hypothesis shrinks the case."""


@dataclass
class Facet:
    name: str
    check: Callable[[dict], tuple]
    strategy: Callable[[str], Any] | None = None       # tier -> Hypothesis strategy
    enumerate: Callable[[str, int], list] | None = None  # (tier, seed) -> list of cases
    quick: tuple = (2, 500)        # (shards, cases per shard)
    thorough: tuple = (16, 2000)
    shrink: bool = True
    min_nontrivial: float = 0.05   # vacuity floor (fraction of evaluations)
    exhaustive_in: tuple = ()      # tiers in which ``enumerate`` covers the whole domain
    doc: str = ""
    fuzz_runs: int = 0             # thorough tier: extra coverage-guided campaign (atheris), executions
    fuzz_instrument: tuple = ()    # package modules instrumented for coverage feedback

    def plan(self, tier: str) -> tuple:
        return self.quick if tier == "quick" else self.thorough


def case_hash(case) -> str:
    blob = json.dumps(case, sort_keys=True, default=str).encode()
    return hashlib.sha1(blob).hexdigest()[:16]


def _sample_repr(case):
    s = json.dumps(case, sort_keys=True, default=str)
    if len(s) <= 1500:
        return case
    return {"_truncated_json": s[:1500], "_full_length": len(s)}


def _through_repo(tb) -> bool:
    src = str(repo_src())
    for fr in traceback.extract_tb(tb):
        if fr.filename.startswith(src):
            return True
    return False


# ----------------------------------------------------------------------------- known findings


def load_known_findings(prop: str) -> list:
    path = ROOT / "known_findings.json"
    if not path.exists():
        return []
    data = json.loads(path.read_text())
    return [f for f in data.get("findings", []) if f.get("property") == prop]


def match_known(open_findings, matchers, facet_name, case, v: Violation):
    for f in open_findings:
        if f.get("status") != "open":
            continue
        if f.get("facet") not in (None, facet_name):
            continue
        m = matchers.get(f.get("matcher"))
        if m is None:
            continue
        try:
            if m(case, v):
                return f
        except Exception:
            continue
    return None


# ----------------------------------------------------------------------------- per-shard recorder


@dataclass
class Recorder:
    prop: str
    facet: Facet
    matchers: dict
    open_findings: list
    evaluations: int = 0
    labels: Counter = field(default_factory=Counter)
    nontrivial: set = field(default_factory=set)
    samples: list = field(default_factory=list)
    nt_samples: list = field(default_factory=list)
    last: Any = None
    failure: dict | None = None
    known: Counter = field(default_factory=Counter)
    harness_error: str | None = None
    failed: bool = False

    def run_case(self, case) -> None:
        if self.harness_error is not None:
            return
        try:
            out = self.facet.check(case)
        except Violation as v:
            self._violation(case, v)
            return
        except HarnessError as e:
            self.harness_error = f"{e}"
            return
        except Exception as e:  # noqa: BLE001 - classified below
            if _through_repo(e.__traceback__):
                tb = "".join(traceback.format_exception(type(e), e, e.__traceback__)[-6:])
                v = Violation(
                    "unexpected-exception:" + type(e).__name__, str(e)[:300], {"traceback": tb}
                )
                self._violation(case, v)
                return
            self.harness_error = "".join(
                traceback.format_exception(type(e), e, e.__traceback__)
            ) + "\ncase=" + json.dumps(case, default=str)[:2000]
            return
        if self.failed:
            return  # shrinking in progress: do not count
        labels, nontrivial = out if out is not None else ((), True)
        self.evaluations += 1
        for lab in labels:
            self.labels[lab] += 1
        if nontrivial:
            h = case_hash(case)
            if h not in self.nontrivial:
                self.nontrivial.add(h)
                # keep the three non-trivial cases with the smallest descriptor hash: a deterministic
                # selection spread over the whole run (the first cases Hypothesis draws are minimal)
                self.nt_samples.append((h, _sample_repr(case)))
                self.nt_samples.sort(key=lambda t: t[0])
                del self.nt_samples[3:]
        if len(self.samples) < 2:
            self.samples.append(_sample_repr(case))
        self.last = case

    def _violation(self, case, v: Violation) -> None:
        kf = match_known(self.open_findings, self.matchers, self.facet.name, case, v)
        if kf is not None:
            if not self.failed:
                self.known[kf["id"]] += 1
                self.evaluations += 1
                self.labels["known-finding:" + kf["id"]] += 1
            return
        self.failed = True
        self.failure = {
            "facet": self.facet.name,
            "case": case,
            "kind": v.kind,
            "message": v.message,
            "details": v.details,
        }
        raise _Fail(v.kind)

    def result(self, shard, wall) -> dict:
        samples = [s for _, s in self.nt_samples] + list(self.samples[:1])
        if self.last is not None:
            samples.append(_sample_repr(self.last))
        return {
            "facet": self.facet.name,
            "shard": shard,
            "evaluations": self.evaluations,
            "labels": dict(self.labels),
            "nontrivial": sorted(self.nontrivial),
            "samples": samples,
            "failure": self.failure,
            "known": dict(self.known),
            "harness_error": self.harness_error,
            "wall": wall,
        }


def load_property(prop: str):
    return importlib.import_module(f"vf.props.{prop.lower()}")


def _pin_worker(counter) -> None:
    """Pin each worker to one core *before* scipp is imported: TBB sizes its thread pool from the
    affinity mask, and 16 workers x 16 TBB threads only produce contention."""
    try:
        cpus = sorted(os.sched_getaffinity(0))
        with counter.get_lock():
            k = counter.value
            counter.value += 1
        os.sched_setaffinity(0, {cpus[k % len(cpus)]})
    except (AttributeError, OSError):
        pass


def run_task(args) -> dict:
    prop, facet_name, tier, shard, nshards, ncases, seed = args
    t0 = time.time()
    try:
        bootstrap()
        mod = load_property(prop)
        assert_tree()
        facet = next(f for f in mod.FACETS if f.name == facet_name)
        rec = Recorder(
            prop, facet, getattr(mod, "MATCHERS", {}), load_known_findings(prop)
        )
        if facet.enumerate is not None:
            cases = facet.enumerate(tier, seed)
            for case in cases[shard::nshards]:
                try:
                    rec.run_case(case)
                except _Fail:
                    break
                if rec.harness_error:
                    break
        else:
            _run_hypothesis(facet, tier, seed * 1000 + shard, ncases, rec)
        return rec.result(shard, time.time() - t0)
    except BaseException as e:  # noqa: BLE001
        return {
            "facet": facet_name, "shard": shard, "evaluations": 0, "labels": {},
            "nontrivial": [], "samples": [], "failure": None, "known": {},
            "harness_error": "".join(traceback.format_exception(type(e), e, e.__traceback__)),
            "wall": time.time() - t0,
        }


def _run_hypothesis(facet: Facet, tier: str, seed: int, ncases: int, rec: Recorder) -> None:
    import hypothesis
    from hypothesis import HealthCheck, Phase, given, settings

    phases = [Phase.explicit, Phase.generate]
    if facet.shrink:
        phases.append(Phase.shrink)

    @hypothesis.seed(seed)
    @settings(
        max_examples=ncases,
        database=None,
        deadline=None,
        derandomize=False,
        report_multiple_bugs=False,
        print_blob=False,
        phases=phases,
        suppress_health_check=[HealthCheck.too_slow, HealthCheck.data_too_large],
    )
    @given(facet.strategy(tier))
    def test(case):
        rec.run_case(case)

    try:
        test()
    except _Fail:
        pass
    except hypothesis.errors.Flaky:
        # Hypothesis re-ran a failing case and it passed (or failed differently).  When the oracle
        # did reject real output of the code once, that observation stands: the defect depends on
        # process state (a cache, a table modified in place), which is exactly what a history
        # property is about.  Without a recorded violation it is the harness that is unstable.
        if rec.failure is None:
            rec.harness_error = "hypothesis reports a flaky check without a recorded violation"
        else:
            rec.failure["message"] += " [did not reproduce when the case was re-run in the same process: state-dependent]"
    except hypothesis.errors.FailedHealthCheck as e:
        rec.harness_error = f"hypothesis health check: {e}"
    except hypothesis.errors.Unsatisfiable as e:
        rec.harness_error = f"hypothesis unsatisfiable: {e}"


# ----------------------------------------------------------------------------- top level


def write_replay(prop: str, failure: dict) -> str:
    d = ROOT / "replays" / prop
    d.mkdir(parents=True, exist_ok=True)
    name = f"{failure['facet']}-{case_hash(failure['case'])}.json"
    path = d / name
    path.write_text(json.dumps(
        {"property": prop, "facet": failure["facet"], "case": failure["case"],
         "kind": failure["kind"], "message": failure["message"],
         "details": failure["details"]}, indent=1, default=str))
    return str(path.relative_to(ROOT))


def replay_file(prop: str, path: str) -> int:
    bootstrap()
    mod = load_property(prop)
    assert_tree()
    data = json.loads(Path(path).read_text())
    facet = next(f for f in mod.FACETS if f.name == data["facet"])
    rec = Recorder(prop, facet, getattr(mod, "MATCHERS", {}), load_known_findings(prop))
    try:
        rec.run_case(data["case"])
    except _Fail:
        f = rec.failure
        print(f"replay: {f['kind']}: {f['message']}")
        print(f"VIOLATION property={prop} replay={path}")
        return 1
    if rec.harness_error:
        print("HARNESS ERROR\n" + rec.harness_error, file=sys.stderr)
        return 2
    for k in rec.known:
        print(f"KNOWN-FINDING: property={prop} {k}")
    print(f"replay: property {prop} facet {facet.name}: holds on this case")
    return 0


def run_property(prop: str, tier: str, seed: int, only: list | None = None, jobs: int = 16) -> int:
    t0 = time.time()
    bootstrap()
    mod = load_property(prop)
    assert_tree()
    if hasattr(mod, "selftest"):
        try:
            mod.selftest()
        except Exception as e:  # noqa: BLE001
            print("HARNESS ERROR: oracle self-test failed", file=sys.stderr)
            traceback.print_exception(type(e), e, e.__traceback__)
            return 2
    facets = [f for f in mod.FACETS if not only or f.name in only]
    open_findings = load_known_findings(prop)
    matchers = getattr(mod, "MATCHERS", {})

    violations = []   # (facet, replay path, kind, message)
    known_total = Counter()
    harness = []

    # 1. regression corpus (seconds-long replay tier)
    corpus_n = 0
    cdir = ROOT / "corpus" / prop
    if cdir.is_dir():
        for p in sorted(cdir.glob("*.json")):
            data = json.loads(p.read_text())
            facet = next((f for f in mod.FACETS if f.name == data["facet"]), None)
            if facet is None or (only and facet.name not in only):
                continue
            rec = Recorder(prop, facet, matchers, open_findings)
            corpus_n += 1
            try:
                rec.run_case(data["case"])
            except _Fail:
                f = rec.failure
                violations.append((facet.name, str(p.relative_to(ROOT)), f["kind"], f["message"]))
            if rec.harness_error:
                harness.append(f"corpus {p.name}: {rec.harness_error}")
            known_total.update(rec.known)

    # 2. generated / enumerated cases, sharded
    tasks = []
    for f in facets:
        nshards, ncases = f.plan(tier)
        for k in range(nshards):
            tasks.append((prop, f.name, tier, k, nshards, ncases, seed))
    results = []
    if tasks:
        import multiprocessing as mp
        from concurrent.futures import ProcessPoolExecutor

        ctx = mp.get_context("spawn")
        counter = ctx.Value("i", 0)
        # one task per worker process: scipp keeps a per-process table of dimension labels (65 536
        # entries) and sc.reduce / the package's uuid-named helper dimensions use a new label on every
        # call; a worker that ran several thorough shards in a row exhausted it (thorough run, seed 5:
        # "Exceeded maximum number of different dimension labels" in Frame.bounds after ~60 000 calls)
        with ProcessPoolExecutor(max_workers=min(jobs, len(tasks)), mp_context=ctx, max_tasks_per_child=1,
                                 initializer=_pin_worker, initargs=(counter,)) as ex:
            results = list(ex.map(run_task, tasks))

    # coverage-guided extra (thorough tier only): one atheris campaign per facet that asks for it
    fuzz_results = {}
    if tier == "thorough":
        sdir = ROOT / ".scratch_evidence"
        sdir.mkdir(exist_ok=True)
        procs = []
        for f in facets:
            if f.fuzz_runs and f.strategy is not None:
                out = sdir / f"fuzz-{prop}-{f.name}-{os.getpid()}.json"
                cmd = [sys.executable, "-m", "vf.fuzz", prop, f.name, "--runs", str(f.fuzz_runs),
                       "--seed", str(seed), "--out", str(out)]
                log = open(str(out) + ".log", "w")  # noqa: SIM115
                procs.append((f, out, subprocess.Popen(cmd, cwd=str(ROOT), stdout=subprocess.DEVNULL, stderr=log)))
        for f, out, pr in procs:
            try:
                pr.wait(timeout=3600)
            except subprocess.TimeoutExpired:
                pr.kill()
            if out.exists():
                fuzz_results[f.name] = json.loads(out.read_text())
                out.unlink()
                logp = Path(str(out) + ".log")
                if logp.exists():
                    import re

                    m = re.findall(r"cov: (\d+) ft: (\d+) corp: (\d+)", logp.read_text(errors="replace"))
                    if m:
                        fuzz_results[f.name].update(coverage_edges=int(m[-1][0]), features=int(m[-1][1]),
                                                    corpus_units=int(m[-1][2]))
                    logp.unlink()

    per_facet = {}
    for f in facets:
        rs = [r for r in results if r["facet"] == f.name]
        labels = Counter()
        nt = set()
        samples = []
        ev = 0
        for r in rs:
            ev += r["evaluations"]
            labels.update(r["labels"])
            nt.update(r["nontrivial"])
            known_total.update(r["known"])
            if r["harness_error"]:
                harness.append(f"{f.name}[{r['shard']}]: {r['harness_error']}")
        for r in rs[:3]:
            samples.extend(r["samples"][:3])
        fails = [r["failure"] for r in rs if r["failure"]]
        fz = fuzz_results.get(f.name)
        if fz:
            if fz.get("failure"):
                fails.append(fz["failure"])
            if fz.get("harness_error") and "atheris not importable" not in fz["harness_error"]:
                harness.append(f"{f.name}[fuzz]: {fz['harness_error']}")
        if fails:
            fl = min(fails, key=lambda x: len(json.dumps(x["case"], default=str)))
            path = write_replay(prop, fl)
            violations.append((f.name, path, fl["kind"], fl["message"]))
        exhaustive = bool(f.enumerate is not None and tier in f.exhaustive_in and not fails)
        per_facet[f.name] = {
            "evaluations": ev,
            "distinct_nontrivial": len(nt),
            "labels": dict(sorted(labels.items(), key=lambda kv: -kv[1])[:60]),
            "exhaustive": exhaustive,
            "samples": samples[:6],
            "shards": len(rs),
            "doc": f.doc,
        }
        if fz:
            per_facet[f.name]["coverage_guided"] = {k: fz.get(k) for k in (
                "engine", "executions", "distinct_nontrivial", "instrumented", "wall_s", "runs_requested",
                "coverage_edges", "features", "corpus_units")}
        if ev > 0 and not fails and len(nt) < f.min_nontrivial * ev and not harness:
            harness.append(
                f"{f.name}: vacuity guard: only {len(nt)} distinct non-trivial cases in {ev} evaluations"
            )

    total_ev = sum(v["evaluations"] for v in per_facet.values()) + corpus_n
    total_nt = sum(v["distinct_nontrivial"] for v in per_facet.values())
    all_samples = []
    for name, v in per_facet.items():
        for s in v["samples"][:3]:
            all_samples.append({"facet": name, "case": s})
    wall = time.time() - t0
    evidence = {
        "property_id": prop,
        "tier": tier,
        "seed": seed,
        "level": "exploration",
        "coverage": {
            "evaluations": total_ev,
            "distinct_nontrivial": total_nt,
            "rule": getattr(mod, "RULE", ""),
            "samples": all_samples,
            "exhaustive": all(v["exhaustive"] for v in per_facet.values()) if per_facet else False,
            "facets": {k: {kk: vv for kk, vv in v.items() if kk != "samples"} for k, v in per_facet.items()},
            "corpus_replayed": corpus_n,
            "known_findings_hit": dict(known_total),
            "tolerances": getattr(mod, "TOLERANCES", {}),
        },
        "assumptions": getattr(mod, "ASSUMPTIONS", []),
        "wall_s": round(wall, 3),
        "violations": len(violations),
    }
    if not only and not harness:
        edir = ROOT / ("evidence" if repo_root() == Path("/repo") else ".scratch_evidence")
        edir.mkdir(exist_ok=True)
        (edir / f"{prop}.json").write_text(json.dumps(evidence, indent=1, default=str) + "\n")

    for name, v in per_facet.items():
        print(f"  {prop}.{name}: {v['evaluations']} cases, {v['distinct_nontrivial']} distinct non-trivial"
              + (" [exhaustive]" if v["exhaustive"] else ""))
    for f in open_findings:
        if f.get("status") == "open":
            print(f"KNOWN-FINDING: property={prop} {f['id']}: {f['what']} (hit {known_total.get(f['id'], 0)} times)")
    if harness:
        print("HARNESS ERROR", file=sys.stderr)
        for h in harness[:5]:
            print(h, file=sys.stderr)
        if not violations:
            return 2
    if violations:
        for facet_name, path, kind, msg in violations:
            print(f"  violation in {prop}.{facet_name}: {kind}: {msg[:400]}")
            print(f"VIOLATION property={prop} replay={path}")
        return 1
    print(f"OK property={prop} tier={tier} seed={seed} cases={total_ev} wall={wall:.1f}s")
    return 0
