"""Coverage-guided campaign for one facet: atheris (libFuzzer) drives the facet's Hypothesis strategy
through `fuzz_one_input`, so the byte-level mutator of libFuzzer explores the same structured case
space with Python-bytecode coverage of the named package modules as feedback.

    python -m vf.fuzz <PROP> <facet> --runs N --seed S --out result.json

The semantic oracle is the facet's own `check` (through the Recorder, so exception classification and
known-finding handling are the same as in the Hypothesis runs).  The result file is rewritten every
few hundred executions because libFuzzer ends the process without running Python exit handlers.
Exit status: 0 campaign finished, 77 violation (case in the result file), 2 harness error.
"""

import argparse
import json
import os
import sys
import time


def main() -> int:
    ap = argparse.ArgumentParser()
    ap.add_argument("prop")
    ap.add_argument("facet")
    ap.add_argument("--runs", type=int, default=100000)
    ap.add_argument("--seed", type=int, default=1)
    ap.add_argument("--out", required=True)
    a = ap.parse_args()

    from vf import core

    core.ensure_deps()
    core.bootstrap()
    try:
        import atheris
    except ImportError as e:
        json.dump({"harness_error": f"atheris not importable: {e}"}, open(a.out, "w"))
        return 2
    mod_name = f"vf.props.{a.prop.lower()}"
    import importlib

    # import the property module first (it may import the package lazily), then instrument the
    # package modules named by the facet
    mod = importlib.import_module(mod_name)
    facet = next(f for f in mod.FACETS if f.name == a.facet)
    with atheris.instrument_imports(include=list(facet.fuzz_instrument)):
        for m in facet.fuzz_instrument:
            sys.modules.pop(m, None)
            importlib.import_module(m)
    core.assert_tree()

    from hypothesis import HealthCheck, given, settings

    rec = core.Recorder(a.prop, facet, getattr(mod, "MATCHERS", {}), core.load_known_findings(a.prop))
    state = {"t0": time.time(), "last_dump": 0}

    def dump(extra=None):
        out = {
            "property": a.prop, "facet": a.facet, "engine": "atheris/libFuzzer via hypothesis.fuzz_one_input",
            "runs_requested": a.runs, "seed": a.seed, "executions": rec.evaluations,
            "distinct_nontrivial": len(rec.nontrivial), "labels": dict(rec.labels),
            "instrumented": list(facet.fuzz_instrument), "wall_s": round(time.time() - state["t0"], 1),
            "failure": rec.failure, "harness_error": rec.harness_error,
        }
        if extra:
            out.update(extra)
        tmp = a.out + ".tmp"
        with open(tmp, "w") as fh:
            json.dump(out, fh, default=str)
        os.replace(tmp, a.out)

    @settings(database=None, deadline=None, suppress_health_check=list(HealthCheck))
    @given(facet.strategy("thorough"))
    def test(case):
        try:
            rec.run_case(case)
        except core._Fail:
            dump()
            os._exit(77)
        if rec.harness_error:
            dump()
            os._exit(2)
        if rec.evaluations - state["last_dump"] >= 500:
            state["last_dump"] = rec.evaluations
            dump()

    dump()
    atheris.Setup([sys.argv[0], f"-runs={a.runs}", f"-seed={a.seed}", "-max_len=4096", "-print_final_stats=1"],
                  test.hypothesis.fuzz_one_input)
    atheris.Fuzz()
    return 0


if __name__ == "__main__":
    sys.exit(main())
