"""Property-based verification machinery for scippneutron (see /verif/DESIGN.md)."""
