"""Independent decoder of the SQW v4 container.

Written from /repo/docs/developer/file-formats/sqw.md and the Horace serialisation layout
(type tag byte, shape = u8 ndim + u32 lengths, column-major arrays; struct = u32 n_fields, u32 name
lengths, names, cell array of values; cell = sequence of tagged objects; tag 32 = self-serialising
prefix).  Nothing is imported from scippneutron.

`decode(bytes)` returns a dict with the header, the block allocation table and, per block, the
decoded value and the number of bytes the block's decoding consumed.  Truncated input raises
`ShortRead`, a malformed object `BadObject`.
"""

import struct

import numpy as np

TAG_LOGICAL, TAG_CHAR, TAG_F64, TAG_F32 = 0, 1, 3, 4
TAG_I8, TAG_U8, TAG_I32, TAG_U32, TAG_I64, TAG_U64 = 5, 6, 9, 10, 11, 12
TAG_CELL, TAG_STRUCT, TAG_SELF = 23, 24, 32
NUMERIC = {TAG_F64: "f8", TAG_F32: "f4", TAG_I8: "i1", TAG_U8: "u1", TAG_I32: "i4", TAG_U32: "u4",
           TAG_I64: "i8", TAG_U64: "u8"}


class ShortRead(Exception):
    pass


class BadObject(Exception):
    pass


class Reader:
    def __init__(self, buf: bytes, bo: str, pos: int = 0, end: int | None = None):
        self.b, self.bo, self.p = buf, bo, pos
        self.end = len(buf) if end is None else end

    def take(self, n: int) -> bytes:
        if self.p + n > self.end:
            raise ShortRead(f"need {n} bytes at {self.p}, limit {self.end} (file length {len(self.b)})")
        r = self.b[self.p:self.p + n]
        self.p += n
        return r

    def u8(self):
        return self.take(1)[0]

    def u32(self):
        return struct.unpack(self.bo + "I", self.take(4))[0]

    def u64(self):
        return struct.unpack(self.bo + "Q", self.take(8))[0]

    def f64(self):
        return struct.unpack(self.bo + "d", self.take(8))[0]

    def chars(self, n):
        raw = self.take(n)
        try:
            # the format document says ASCII; UTF-8 is accepted as long as the stored length is the
            # number of bytes, i.e. the container stays consistent (n is a byte count here)
            return raw.decode("utf-8")
        except UnicodeDecodeError as e:
            raise BadObject(f"undecodable character array at {self.p - n}: {raw[:40]!r}") from e

    def char_array(self):
        return self.chars(self.u32())


def _vol(shape):
    v = 1
    for s in shape:
        v *= s
    return v


class Struct(dict):
    """dict of field name -> decoded value, remembering whether a 32 prefix preceded it."""

    self_serialising = False


def read_object(r: Reader):
    """Decode one tagged object array.  Returns python values:

    char -> str (or list[str] for >1-d), f64 etc. -> numpy array in row-major numpy shape
    (= reversed stored shape), logical -> list[bool], cell -> list, struct -> Struct or list[Struct].
    The stored shape is attached in `last_shape` of the wrapper tuple: (kind, stored_shape, value).
    """
    start = r.p
    tag = r.u8()
    prefixed = False
    if tag == TAG_SELF:
        prefixed = True
        tag = r.u8()
    nd = r.u8()
    shape = tuple(r.u32() for _ in range(nd))
    if tag == TAG_CHAR:
        if not shape:
            return ("char", shape, "")
        n = shape[0]
        k = _vol(shape[1:])
        vals = [r.chars(n) for _ in range(k)]
        return ("char", shape, vals[0] if len(shape) == 1 else vals)
    if tag in NUMERIC:
        if not shape:
            return ("num", shape, np.array([], dtype=NUMERIC[tag]))
        dt = np.dtype(r.bo + NUMERIC[tag])
        raw = r.take(dt.itemsize * _vol(shape))
        arr = np.frombuffer(raw, dtype=dt).astype(dt.newbyteorder("=")).reshape(shape[::-1])
        return ("num", shape, arr)
    if tag == TAG_LOGICAL:
        raw = r.take(_vol(shape)) if shape else b""
        return ("logical", shape, [x != 0 for x in raw])
    if tag == TAG_CELL:
        return ("cell", shape, [read_object(r) for _ in range(_vol(shape) if shape else 0)])
    if tag == TAG_STRUCT:
        if not shape:
            return ("struct", shape, [])
        nf = r.u32()
        lens = [r.u32() for _ in range(nf)]
        names = [r.chars(n) for n in lens]
        if len(set(names)) != len(names):
            raise BadObject(f"duplicate struct field names {names} at {start}")
        vals = read_object(r)
        if vals[0] != "cell":
            raise BadObject(f"struct values at {start} are not a cell array but {vals[0]}")
        n = _vol(shape)
        want = (nf, 1) if n == 1 else (nf, 1, *shape)
        if tuple(vals[1]) != want:
            raise BadObject(f"struct at {start}: value cell has shape {vals[1]}, expected {want}")
        out = []
        for i in range(n):
            s = Struct(zip(names, vals[2][i * nf:(i + 1) * nf], strict=True))
            s.self_serialising = prefixed
            out.append(s)
        return ("struct", shape, out)
    raise BadObject(f"unknown type tag {tag} at {start}")


def plain(obj):
    """Strip the (kind, shape, value) wrappers recursively."""
    kind, _shape, val = obj
    if kind == "cell":
        return [plain(v) for v in val]
    if kind == "struct":
        res = []
        for s in val:
            d = Struct({k: plain(v) for k, v in s.items()})
            d.self_serialising = s.self_serialising
            res.append(d)
        return res
    return val


def decode(buf: bytes) -> dict:
    out = {}
    bo = None
    for cand in ("<", ">"):
        r = Reader(buf, cand)
        try:
            n = r.u32()
            if n == 6 and r.chars(6) == "horace":
                bo = cand
                break
        except (ShortRead, BadObject):
            continue
    if bo is None:
        raise BadObject(f"file does not start with the char array 'horace': {buf[:12]!r}")
    out["byteorder"] = "little" if bo == "<" else "big"
    version = r.f64()
    ftype = r.u32()
    ndims = r.u32()
    out["header"] = ("horace", version, ftype, ndims)
    out["header_end"] = r.p
    bat_size = r.u32()
    bat_begin = r.p
    n_blocks = r.u32()
    desc = []
    for _ in range(n_blocks):
        btype = r.char_array()
        n1 = r.char_array()
        n2 = r.char_array()
        pos = r.u64()
        size = r.u32()
        locked = r.u32()
        desc.append({"type": btype, "name": (n1, n2), "position": pos, "size": size, "locked": locked})
    out["bat_size_declared"] = bat_size
    out["bat_size_actual"] = r.p - bat_begin
    out["bat_end"] = r.p
    out["descriptors"] = desc
    out["file_length"] = len(buf)
    blocks = {}
    for d in desc:
        pos, size = d["position"], d["size"]
        entry = {"descriptor": d}
        try:
            if pos + size > len(buf):
                raise ShortRead(f"declared extent [{pos}, {pos + size}) exceeds the file length {len(buf)}")
            rr = Reader(buf, bo, pos, pos + size)
            if d["type"] == "data_block":
                raw = read_object(rr)
                entry["raw"] = raw
                entry["value"] = plain(raw)
            elif d["type"] == "pix_data_block":
                nrows = rr.u32()
                npix = rr.u64()
                dt = np.dtype(bo + "f4")
                data = np.frombuffer(rr.take(4 * nrows * npix), dtype=dt).astype("=f4").reshape(npix, nrows)
                entry["value"] = {"n_rows": nrows, "n_pixels": npix, "data": data}
            elif d["type"] == "dnd_data_block":
                nd = rr.u32()
                shp = tuple(rr.u32() for _ in range(nd))
                v = _vol(shp)
                a = np.frombuffer(rr.take(8 * v), dtype=bo + "f8").astype("=f8")
                b = np.frombuffer(rr.take(8 * v), dtype=bo + "f8").astype("=f8")
                c = np.frombuffer(rr.take(8 * v), dtype=bo + "u8").astype("=u8")
                entry["value"] = {"shape": shp, "values": a, "errors": b, "counts": c}
            else:
                raise BadObject(f"unknown block type {d['type']!r}")
            entry["consumed"] = rr.p - pos
        except (ShortRead, BadObject) as e:
            entry["error"] = f"{type(e).__name__}: {e}"
        blocks[d["name"]] = entry
    out["blocks"] = blocks
    return out


def selftest():
    # hand-assembled little-endian file: header + BAT with one data block holding a char array "ab"
    hdr = struct.pack("<I", 6) + b"horace" + struct.pack("<dII", 4.0, 1, 0)
    block = bytes([TAG_CHAR, 1]) + struct.pack("<I", 2) + b"ab"
    d = (struct.pack("<I", 10) + b"data_block" + struct.pack("<I", 0) + struct.pack("<I", 1) + b"x")
    bat_body = struct.pack("<I", 1) + d
    pos = len(hdr) + 4 + len(bat_body) + 8 + 4 + 4
    bat_body += struct.pack("<QII", pos, len(block), 0)
    buf = hdr + struct.pack("<I", len(bat_body)) + bat_body + block
    out = decode(buf)
    assert out["header"] == ("horace", 4.0, 1, 0) and out["byteorder"] == "little"
    assert out["bat_size_declared"] == out["bat_size_actual"]
    e = out["blocks"][("", "x")]
    assert e["value"] == "ab" and e["consumed"] == len(block), e
    # truncated file -> ShortRead reported in the block entry
    out = decode(buf[:-1])
    assert "error" in out["blocks"][("", "x")]
    # struct with two fields, one f64 2x3 array (stored shape (3,2), column-major)
    arr = np.arange(6, dtype="<f8").reshape(2, 3)
    f1 = bytes([TAG_F64, 2]) + struct.pack("<II", 3, 2) + arr.tobytes()
    f2 = bytes([TAG_LOGICAL, 1]) + struct.pack("<I", 1) + b"\x01"
    cell = bytes([TAG_CELL, 2]) + struct.pack("<II", 2, 1) + f1 + f2
    st = bytes([TAG_STRUCT, 1]) + struct.pack("<I", 1) + struct.pack("<III", 2, 1, 2) + b"a" + b"bc" + cell
    r = Reader(st, "<")
    v = plain(read_object(r))
    assert r.p == len(st) and list(v[0]) == ["a", "bc"] and v[0]["bc"] == [True]
    assert v[0]["a"].shape == (2, 3) and v[0]["a"][1, 2] == 5.0
