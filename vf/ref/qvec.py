"""Momentum-transfer vector and hkl algebra in 50-digit arithmetic (3x3 linear algebra in mpmath).

Written from the definitions
    Q  = (2 pi / lambda) (e_i - e_f),  e = b / |b|
    Q  = 2 pi R U B (h, k, l)^T
    R(q) for a unit quaternion q = (x, y, z, w)  (Hamilton convention, vector part first, the
    storage order of scipp's ``rotation3``)
and nothing else; no scipp / numpy linear algebra is used here.
"""

import mpmath as mp

mp.mp.dps = 50

TWO_PI = 2 * mp.pi


def vec(v):
    return [mp.mpf(float(x)) for x in v]


def mat(m):
    return [[mp.mpf(float(x)) for x in row] for row in m]


def norm(v):
    return mp.sqrt(sum(x * x for x in v))


def unit(v):
    n = norm(v)
    return [x / n for x in v]


def sub(a, b):
    return [p - q for p, q in zip(a, b, strict=True)]


def scale(c, v):
    return [c * x for x in v]


def matvec(m, v):
    return [sum(m[i][k] * v[k] for k in range(3)) for i in range(3)]


def matmul(a, b):
    return [[sum(a[i][k] * b[k][j] for k in range(3)) for j in range(3)] for i in range(3)]


def absmat(a):
    return [[abs(x) for x in row] for row in a]


def transpose(a):
    return [[a[j][i] for j in range(3)] for i in range(3)]


def det(a):
    return (
        a[0][0] * (a[1][1] * a[2][2] - a[1][2] * a[2][1])
        - a[0][1] * (a[1][0] * a[2][2] - a[1][2] * a[2][0])
        + a[0][2] * (a[1][0] * a[2][1] - a[1][1] * a[2][0])
    )


def inv(a):
    """Inverse of a 3x3 mp matrix by the adjugate (exact up to the working precision)."""
    d = det(a)
    c = [[None] * 3 for _ in range(3)]
    for i in range(3):
        for j in range(3):
            i1, i2 = (i + 1) % 3, (i + 2) % 3
            j1, j2 = (j + 1) % 3, (j + 2) % 3
            # cofactor C_ij (cyclic indices carry the sign); inverse = C^T / det
            c[j][i] = (a[i1][j1] * a[i2][j2] - a[i1][j2] * a[i2][j1]) / d
    return c


def q_vector(lam, b_i, b_f):
    """(2 pi / lam) (e_i - e_f); ``lam`` mpf, beams lists of mpf (any length unit, any length)."""
    k = TWO_PI / lam
    return scale(k, sub(unit(b_i), unit(b_f)))


def rot_from_quat(q):
    """Rotation matrix of the quaternion (x, y, z, w) after exact normalisation."""
    x, y, z, w = unit(vec(q))
    return [
        [1 - 2 * (y * y + z * z), 2 * (x * y - z * w), 2 * (x * z + y * w)],
        [2 * (x * y + z * w), 1 - 2 * (x * x + z * z), 2 * (y * z - x * w)],
        [2 * (x * z - y * w), 2 * (y * z + x * w), 1 - 2 * (x * x + y * y)],
    ]


def singular_values(a):
    """Singular values (descending) of a 3x3 mp matrix."""
    s = mp.svd_r(mp.matrix(a), compute_uv=False)
    return sorted((s[i] for i in range(3)), reverse=True)


def cond2(a):
    s = singular_values(a)
    return s[0] / s[2]


def b_matrix_busing_levy(a, b, c, alpha, beta, gamma):
    """B of Busing & Levy (1967) for direct-lattice parameters (lengths, angles in rad).

    B = [[a*, b* cos(gamma*), c* cos(beta*)], [0, b* sin(gamma*), -c* sin(beta*) cos(alpha)],
         [0, 0, 1/c]]   (starred = reciprocal lattice, without the factor 2 pi).
    """
    ca, cb, cg = mp.cos(alpha), mp.cos(beta), mp.cos(gamma)
    sa, sb, sg = mp.sin(alpha), mp.sin(beta), mp.sin(gamma)
    vol = a * b * c * mp.sqrt(1 - ca * ca - cb * cb - cg * cg + 2 * ca * cb * cg)
    ar, br, cr = b * c * sa / vol, a * c * sb / vol, a * b * sg / vol
    cbr = (ca * cg - cb) / (sa * sg)
    cgr = (ca * cb - cg) / (sa * sb)
    sbr, sgr = mp.sqrt(1 - cbr * cbr), mp.sqrt(1 - cgr * cgr)
    return [
        [ar, br * cgr, cr * cbr],
        [mp.mpf(0), br * sgr, -cr * sbr * ca],
        [mp.mpf(0), mp.mpf(0), 1 / c],
    ]


def selftest():
    # incident along z, scattered along x, 2 angstrom: Q = pi * (-1, 0, 1)
    q = q_vector(mp.mpf(2), vec([0, 0, 10]), vec([0.5, 0, 0]))
    assert all(mp.almosteq(g, e) for g, e in zip(q, [-mp.pi, 0, mp.pi], strict=True)) and q[1] == 0
    # |Q| = 4 pi sin(theta) / lambda with 2 theta = 90 deg
    assert mp.almosteq(norm(q), 4 * mp.pi * mp.sin(mp.pi / 4) / 2)
    # quaternion for a rotation by 90 deg about z: (0, 0, sin 45, cos 45): x -> y
    r = rot_from_quat([0.0, 0.0, 1.0, 1.0])
    got = matvec(r, vec([1, 0, 0]))
    assert all(abs(g - e) < mp.mpf(10) ** -45 for g, e in zip(got, [0, 1, 0], strict=True)), got
    # 120 deg about (1,1,1): cyclic permutation x -> y -> z -> x
    r = rot_from_quat([1.0, 1.0, 1.0, 1.0])
    got = matvec(r, vec([1, 2, 3]))
    assert all(abs(g - e) < mp.mpf(10) ** -45 for g, e in zip(got, [3, 1, 2], strict=True)), got
    assert abs(det(r) - 1) < mp.mpf(10) ** -45
    rrt = matmul(r, transpose(r))
    assert all(abs(rrt[i][j] - (i == j)) < mp.mpf(10) ** -45 for i in range(3) for j in range(3))
    # matmul / matvec on a hand-computed example
    a = mat([[1, 2, 0], [0, 1, 0], [0, 0, 3]])
    b = mat([[0, 1, 0], [1, 0, 0], [0, 0, 1]])
    assert matmul(a, b) == mat([[2, 1, 0], [1, 0, 0], [0, 0, 3]])
    assert matmul(b, a) == mat([[0, 1, 0], [1, 2, 0], [0, 0, 3]])
    assert matvec(a, vec([1, 1, 1])) == vec([3, 1, 3])
    assert inv(a) == [[1, -2, 0], [0, 1, 0], [0, 0, mp.mpf(1) / 3]]
    g = mat([[2, -1, 0.5], [0.25, 3, 1], [-1, 0.5, 4]])
    gi = matmul(g, inv(g))
    assert all(abs(gi[i][j] - (i == j)) < mp.mpf(10) ** -45 for i in range(3) for j in range(3))
    assert det(a) == 3
    s = singular_values(mat([[0, 4, 0], [0.5, 0, 0], [0, 0, 2]]))
    assert all(mp.almosteq(g, e) for g, e in zip(s, [4, 2, 0.5], strict=True)), s
    assert mp.almosteq(cond2(mat([[0, 4, 0], [0.5, 0, 0], [0, 0, 2]])), 8)
    # cubic lattice a = 4: B = I / 4 ; hexagonal a=b=3, c=5, gamma=120 deg: a* = 2/(3 sqrt 3)... = 1/(a sin gamma)
    bm = b_matrix_busing_levy(mp.mpf(4), mp.mpf(4), mp.mpf(4), mp.pi / 2, mp.pi / 2, mp.pi / 2)
    assert all(abs(bm[i][j] - (mp.mpf(1) / 4 if i == j else 0)) < mp.mpf(10) ** -45
               for i in range(3) for j in range(3))
    bm = b_matrix_busing_levy(mp.mpf(3), mp.mpf(3), mp.mpf(5), mp.pi / 2, mp.pi / 2, 2 * mp.pi / 3)
    assert mp.almosteq(bm[0][0], 1 / (3 * mp.sin(2 * mp.pi / 3)))
    assert mp.almosteq(bm[0][1], bm[0][0] / 2) and mp.almosteq(bm[1][1], mp.mpf(1) / 3)
    assert mp.almosteq(bm[2][2], mp.mpf(1) / 5)
