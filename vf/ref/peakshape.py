"""Peak / background shapes from their documented definitions, in 50-digit arithmetic.

Written from the class docstrings of ``scippneutron.peaks.model`` (the mathematics, not the code):

    Gaussian      G(x; A, mu, s)      = A / (sqrt(2 pi) s) * exp(-(x - mu)^2 / (2 s^2))
    Lorentzian    L(x; A, mu, s)      = A / pi * s / ((x - mu)^2 + s^2)
    pseudo-Voigt  V(x; A, mu, s, al)  = al L(x; A, mu, s) + (1 - al) G(x; A, mu, s_G),
                  s_G chosen so that G and L have the same FWHM:  2 sqrt(2 ln 2) s_G = 2 s
    polynomial    P(x; a_0..a_n)      = sum_i a_i x^i

All inputs are taken as exact (``mp.mpf(float)``); nothing here imports scipp.
"""

import mpmath as mp

mp.mp.dps = 50

SQRT_2PI = mp.sqrt(2 * mp.pi)
FWHM_GAUSS = 2 * mp.sqrt(2 * mp.log(2))  # FWHM / sigma of a Gaussian


def _m(v):
    return mp.mpf(v)  # exact for float / int / mpf (and mp constants at working precision)


def gaussian(x, amplitude, loc, scale):
    x, amplitude, loc, scale = _m(x), _m(amplitude), _m(loc), _m(scale)
    return amplitude / (SQRT_2PI * scale) * mp.exp(-((x - loc) ** 2) / (2 * scale**2))


def gaussian_exponent(x, loc, scale):
    """z in exp(-z): the condition number of the Gaussian with respect to its argument."""
    x, loc, scale = _m(x), _m(loc), _m(scale)
    return (x - loc) ** 2 / (2 * scale**2)


def lorentzian(x, amplitude, loc, scale):
    x, amplitude, loc, scale = _m(x), _m(amplitude), _m(loc), _m(scale)
    return amplitude / mp.pi * scale / ((x - loc) ** 2 + scale**2)


def sigma_g_equal_fwhm(scale):
    """Gaussian sigma whose FWHM equals the Lorentzian FWHM 2*scale."""
    return 2 * _m(scale) / FWHM_GAUSS


def pseudo_voigt(x, amplitude, loc, scale, fraction):
    fraction = _m(fraction)
    return fraction * lorentzian(x, amplitude, loc, scale) + (1 - fraction) * gaussian(
        x, amplitude, loc, sigma_g_equal_fwhm(scale)
    )


def polynomial(x, coeffs):
    """sum_i a_i x^i as an explicit sum of powers; also returns sum_i |a_i x^i|."""
    x = _m(x)
    terms = [_m(a) * x**i for i, a in enumerate(coeffs)]
    return mp.fsum(terms), mp.fsum(abs(t) for t in terms)


def fwhm(kind, scale):
    """Analytic FWHM (used only in self-tests and labels; the checks use the model's own)."""
    if kind == "gaussian":
        return FWHM_GAUSS * _m(scale)
    return 2 * _m(scale)


def selftest():
    eq = lambda a, b: mp.almosteq(a, b, rel_eps=mp.mpf(10) ** -40)  # noqa: E731
    # hand-computed values
    assert eq(gaussian(0, 1, 0, 1), 1 / mp.sqrt(2 * mp.pi))
    assert mp.almosteq(gaussian(0, 1, 0, 1), mp.mpf("0.3989422804014326779399460599343818684758586311649"),
                       rel_eps=mp.mpf(10) ** -45)
    assert eq(gaussian(3, 2, 1, 2), 2 / (2 * mp.sqrt(2 * mp.pi)) * mp.exp(mp.mpf(-1) / 2))
    assert eq(lorentzian(0, 1, 0, 1), 1 / mp.pi)
    assert eq(lorentzian(3, mp.pi, 1, 2), mp.mpf(2) / 8)
    assert eq(pseudo_voigt(0.5, 3, 0.5, 2, 1), lorentzian(0.5, 3, 0.5, 2))
    assert eq(pseudo_voigt(0.5, 3, 0.5, 2, 0), 3 / (SQRT_2PI * 2 / mp.sqrt(2 * mp.log(2))))
    # half maximum at loc +- fwhm/2, for each kind
    for kind, f in (("gaussian", gaussian), ("lorentzian", lorentzian)):
        w = fwhm(kind, 0.75)
        assert eq(f(mp.mpf(2) + w / 2, -3, 2, 0.75), f(2, -3, 2, 0.75) / 2)
        assert eq(f(mp.mpf(2) - w / 2, -3, 2, 0.75), f(2, -3, 2, 0.75) / 2)
    for al in (0, 0.25, 1):
        assert eq(pseudo_voigt(mp.mpf(2) + 0.75, -3, 2, 0.75, al), pseudo_voigt(2, -3, 2, 0.75, al) / 2)
    # normalisation by independent numerical quadrature
    for f in (lambda t: gaussian(t, 2.5, 1, 0.5), lambda t: lorentzian(t, 2.5, 1, 0.5),
              lambda t: pseudo_voigt(t, 2.5, 1, 0.5, 0.3)):
        val = mp.quad(f, [-mp.inf, 0, 1, 2, mp.inf])
        assert mp.almosteq(val, mp.mpf(2.5), rel_eps=mp.mpf(10) ** -20), val
    v, s = polynomial(2, [1, -3, 0.5])
    assert v == mp.mpf(-3) and s == mp.mpf(9)
    v, s = polynomial(-1, [1, 1, 1, 1])
    assert v == 0 and s == 4
