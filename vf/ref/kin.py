"""Closed-form neutron kinematics in 50-digit arithmetic (SI in, SI out)."""

import mpmath as mp

mp.mp.dps = 50

_const = {}


def consts():
    """h, m_n, g as exposed by scipp.constants (read lazily, converted exactly)."""
    if not _const:
        import scipp.constants as c

        assert str(c.h.unit) == "J*s" and str(c.m_n.unit) == "kg"
        _const["h"] = mp.mpf(float(c.h.value))
        _const["m_n"] = mp.mpf(float(c.m_n.value))
        _const["g"] = mp.mpf(float(c.g.value))
    return _const


def wavelength_from_tof(t, L):
    c = consts()
    return c["h"] * t / (c["m_n"] * L)


def energy_from_tof(t, L):
    c = consts()
    return c["m_n"] * L * L / (2 * t * t)


def energy_from_wavelength(lam):
    c = consts()
    return c["h"] ** 2 / (2 * c["m_n"] * lam * lam)


def wavelength_from_energy(E):
    c = consts()
    return c["h"] / mp.sqrt(2 * c["m_n"] * E)


def dspacing_from_wavelength(lam, two_theta):
    return lam / (2 * mp.sin(two_theta / 2))


def Q_from_wavelength(lam, two_theta):
    return 4 * mp.pi * mp.sin(two_theta / 2) / lam


def velocity_from_energy(E):
    c = consts()
    return mp.sqrt(2 * E / c["m_n"])


def inverse_velocity_from_wavelength(lam):
    """s/m for a wavelength in m."""
    c = consts()
    return lam * c["m_n"] / c["h"]


def gravity_drop(g_abs, lam, L2):
    c = consts()
    return g_abs * c["m_n"] ** 2 * lam**2 * L2**2 / (2 * c["h"] ** 2)


def norm(v):
    return mp.sqrt(sum(x * x for x in v))


def kahan_angle(a, b):
    """Angle between vectors a and b (lists of mpf), 2*atan2(|a^-b^|, |a^+b^|)."""
    na, nb = norm(a), norm(b)
    if na == 0 or nb == 0:
        return mp.nan      # no angle with a zero-length vector (callers treat such cases as out of domain)
    a = [x / na for x in a]
    b = [x / nb for x in b]
    y = norm([p - q for p, q in zip(a, b, strict=True)])
    x = norm([p + q for p, q in zip(a, b, strict=True)])
    return 2 * mp.atan2(y, x)


def vec(v):
    return [mp.mpf(float(x)) for x in v]


def dot(a, b):
    return sum(p * q for p, q in zip(a, b, strict=True))


def cross(a, b):
    return [
        a[1] * b[2] - a[2] * b[1],
        a[2] * b[0] - a[0] * b[2],
        a[0] * b[1] - a[1] * b[0],
    ]


def relerr(got, ref):
    got = mp.mpf(float(got))
    if ref == 0:
        return abs(got)
    return abs(got - ref) / abs(ref)


def selftest():
    # 1 angstrom neutron: E = 81.8042 meV, v = 3956.03 m/s  (textbook values)
    lam = mp.mpf("1e-10")
    E = energy_from_wavelength(lam) / mp.mpf("1.602176634e-22")
    assert abs(E - mp.mpf("81.8042")) < mp.mpf("1e-3"), E
    v = 1 / inverse_velocity_from_wavelength(lam)
    assert abs(v - mp.mpf("3956.034")) < mp.mpf("1e-2"), v
    assert mp.almosteq(wavelength_from_energy(energy_from_wavelength(lam)), lam)
    assert mp.almosteq(kahan_angle([1, 0, 0], [0, 1, 0]), mp.pi / 2)
    assert mp.almosteq(wavelength_from_tof(mp.mpf(1) / v, 1), lam)
