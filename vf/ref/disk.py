"""Rotating-disk simulator, written from the module documentation of chopper.disk_chopper.

Angles are measured anticlockwise from TDC on the disk.  The documentation gives the time at
which the point at angle theta is at the beam position,

    dt(theta) = (beam_position + phase - theta) / omega   (+ one period if anticlockwise),

so the disk angle at the beam position at time t is  theta(t) = beam_position + phase - omega t
(mod 2 pi).  The chopper is open at t iff theta(t) lies in a slit arc [begin, end] (mod 2 pi).
All arguments in rad, s, rad/s (plain floats).
"""

import math

TWO_PI = 2 * math.pi


def angle_at_beam(t, omega, beam_position, phase):
    return (beam_position + phase - omega * t) % TWO_PI


def open_slit(t, omega, beam_position, phase, slits):
    """Index of the slit that is over the beam at time t, or None."""
    th = angle_at_beam(t, omega, beam_position, phase)
    for i, (b, e) in enumerate(slits):
        if ((th - b) % TWO_PI) <= (e - b):
            return i
    return None


def true_openings(omega, beam_position, phase, slits, t_lo, t_hi, eps):
    """All (open, close, slit index) with [open, close] inside [t_lo - eps, t_hi + eps]."""
    period = TWO_PI / abs(omega)
    out = []
    for i, (b, e) in enumerate(slits):
        # anticlockwise (omega > 0): theta(t) decreases, the beam meets the `end` edge first
        th_open = e if omega > 0 else b
        dur = (e - b) / abs(omega)
        t0 = (beam_position + phase - th_open) / omega
        k0 = math.floor((t_lo - t0) / period) - 2
        k1 = math.ceil((t_hi - t0) / period) + 2
        for k in range(k0, k1 + 1):
            t = t0 + k * period
            if t >= t_lo - eps and t + dur <= t_hi + eps:
                out.append((t, t + dur, i))
    out.sort()
    return out


def arcs_overlap(slits, min_measure=0.0):
    """True if two slit arcs share more than ``min_measure`` radians on the circle."""
    n = len(slits)
    for i in range(n):
        for j in range(i + 1, n):
            if _overlap_measure(slits[i], slits[j]) > min_measure:
                return True
    return False


def _overlap_measure(a, b):
    tot = 0.0
    for shift in (-TWO_PI, 0.0, TWO_PI):
        lo = max(a[0], b[0] + shift)
        hi = min(a[1], b[1] + shift)
        tot += max(0.0, hi - lo)
    return tot


def selftest():
    # one slit [10deg, 30deg], clockwise 1 Hz (omega = -2 pi), beam at 0, phase 0:
    # begin edge at the beam at t = (0 - b)/omega = b / (2 pi) s = 10/360 s
    b, e = math.radians(10), math.radians(30)
    om = -TWO_PI
    assert open_slit(20 / 360, om, 0.0, 0.0, [(b, e)]) == 0
    assert open_slit(5 / 360, om, 0.0, 0.0, [(b, e)]) is None
    assert open_slit(35 / 360, om, 0.0, 0.0, [(b, e)]) is None
    ops = true_openings(om, 0.0, 0.0, [(b, e)], 0.0, 1.0, 1e-9)
    assert len(ops) == 1 and abs(ops[0][0] - 10 / 360) < 1e-12 and abs(ops[0][1] - 30 / 360) < 1e-12
    # anticlockwise: the end edge arrives first, at t = -e/omega + T = (360-30)/360
    om = TWO_PI
    ops = true_openings(om, 0.0, 0.0, [(b, e)], 0.0, 1.0, 1e-9)
    assert len(ops) == 1 and abs(ops[0][0] - 330 / 360) < 1e-12 and abs(ops[0][1] - 350 / 360) < 1e-12
    assert arcs_overlap([(math.radians(350), math.radians(370)), (math.radians(5), math.radians(20))])
    assert not arcs_overlap([(math.radians(350), math.radians(364)), (math.radians(5), math.radians(20))])
