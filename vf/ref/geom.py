"""Reference geometry of a solid finite cylinder, written from the mathematics only.

Nothing here uses the implementation's rotation formula: the cylinder frame is an orthonormal
basis (e1, e2, a) obtained by Gram-Schmidt from the axis and the coordinate direction least
aligned with it.  In that frame the solid is  x^2 + y^2 <= r^2,  0 <= z <= h  and a ray
p + t d (t >= 0) is inside for the intersection of three t-intervals: the chord of the circle,
the slab and [0, inf).

* ``ray_length_mp``  - one ray, mpmath (default 50 digits) on the exact stored inputs; returns the
  length and the conditioning numbers the caller needs to widen a tolerance at tangency.
* ``ray_lengths_np`` - many rays, float64 numpy (for the transmission reference).
* ``unit_moment``    - exact moments of monomials over the unit cylinder x^2+y^2<=1, |z|<=1.
* ``reference_rule`` - fine product rule (Gauss-Legendre in r^2... see below) on the solid.
* ``transmission_ref`` - single-scatter transmission by that rule.
"""

from __future__ import annotations

import math
from functools import lru_cache

import mpmath as mp
import numpy as np

# ----------------------------------------------------------------------------- frames


def basis_np(axis):
    """Orthonormal right-handed (e1, e2, a) with a = axis/|axis|, by Gram-Schmidt."""
    a = np.asarray(axis, dtype=float)
    a = a / math.sqrt(float(a @ a))
    k = int(np.argmin(np.abs(a)))          # coordinate direction least aligned with the axis
    s = np.zeros(3)
    s[k] = 1.0
    e1 = s - (s @ a) * a
    e1 = e1 / math.sqrt(float(e1 @ e1))
    e2 = np.cross(a, e1)
    e2 = e2 - (e2 @ a) * a - (e2 @ e1) * e1  # re-orthogonalise once
    e2 = e2 / math.sqrt(float(e2 @ e2))
    return e1, e2, a


def _dot(u, v):
    return u[0] * v[0] + u[1] * v[1] + u[2] * v[2]


def _cross(u, v):
    return [u[1] * v[2] - u[2] * v[1], u[2] * v[0] - u[0] * v[2], u[0] * v[1] - u[1] * v[0]]


def _axpy(alpha, x, y):
    return [alpha * x[i] + y[i] for i in range(3)]


def _unit(u):
    n = mp.sqrt(_dot(u, u))
    return [c / n for c in u]


def basis_mp(axis):
    a = _unit([mp.mpf(c) for c in axis])
    k = min(range(3), key=lambda i: abs(a[i]))
    s = [mp.mpf(0)] * 3
    s[k] = mp.mpf(1)
    e1 = _unit(_axpy(-_dot(s, a), a, s))
    e2 = _cross(a, e1)
    return e1, e2, a


# ----------------------------------------------------------------------------- one ray, exact


def ray_length_mp(base, axis, r, h, start, direction, dps=50):
    """Length of {start + t*direction, t >= 0} inside the solid cylinder.

    All arguments are taken at their exact (stored) values.  ``direction`` need not be a unit
    vector: the length is measured in space (t-interval times |direction|); ``axis`` is normalised.

    Returns a dict:
      length      - the length (mpf)
      hit         - length > 0
      inside      - start strictly inside the solid
      disc_rel    - 1 - (distance of the line from the axis / r)^2; < 0 line misses the infinite
                    cylinder, ~0 tangent; None when the ray is parallel to the axis
      parallel    - the stored direction and axis vectors are exactly collinear
      rho_rel     - (distance of start from the axis) / r
      zeta_rel    - (axial coordinate of start) / h   (0 and 1 are the end caps)
      sin_axis    - sine of the angle between direction and axis
      t_enter, t_exit - the parameter interval in units of length (None if empty)
    """
    with mp.workdps(dps):
        e1, e2, a = basis_mp(axis)
        r = mp.mpf(r)
        h = mp.mpf(h)
        p = [mp.mpf(start[i]) - mp.mpf(base[i]) for i in range(3)]
        d = [mp.mpf(c) for c in direction]
        dn = mp.sqrt(_dot(d, d))
        d = [c / dn for c in d]
        px, py, pz = _dot(p, e1), _dot(p, e2), _dot(p, a)
        dx, dy, dz = _dot(d, e1), _dot(d, e2), _dot(d, a)
        # exactly collinear stored vectors (products of doubles are exact at >= 32 digits)
        raw = _cross([mp.mpf(c) for c in direction], [mp.mpf(c) for c in axis])
        if raw[0] == 0 and raw[1] == 0 and raw[2] == 0:
            dx = dy = mp.mpf(0)
            dz = mp.mpf(1) if dz > 0 else mp.mpf(-1)
        inf = mp.inf
        A = dx * dx + dy * dy
        rho2 = px * px + py * py
        out = {
            "rho_rel": mp.sqrt(rho2) / r,
            "zeta_rel": pz / h,
            "sin_axis": mp.sqrt(A),
            "inside": bool(rho2 < r * r and 0 < pz < h),
        }
        # circle
        if A == 0:
            out["parallel"] = True
            out["disc_rel"] = None
            lo_c, hi_c = (-inf, inf) if rho2 <= r * r else (inf, -inf)
        else:
            out["parallel"] = False
            B = px * dx + py * dy
            cross = px * dy - py * dx              # |p_perp x d_perp|
            disc = A * r * r - cross * cross
            out["disc_rel"] = disc / (A * r * r)
            if disc < 0:
                lo_c, hi_c = inf, -inf
            else:
                sq = mp.sqrt(disc)
                lo_c, hi_c = (-B - sq) / A, (-B + sq) / A
        # slab 0 <= pz + t dz <= h
        if dz == 0:
            lo_s, hi_s = (-inf, inf) if 0 <= pz <= h else (inf, -inf)
        else:
            t0, t1 = -pz / dz, (h - pz) / dz
            lo_s, hi_s = min(t0, t1), max(t0, t1)
        lo = max(lo_c, lo_s, mp.mpf(0))
        hi = min(hi_c, hi_s)
        if hi > lo:
            out.update(length=hi - lo, hit=True, t_enter=lo, t_exit=hi)
        else:
            out.update(length=mp.mpf(0), hit=False, t_enter=None, t_exit=None)
        return out


# ----------------------------------------------------------------------------- many rays, float64


def ray_lengths_np(base, axis, r, h, starts, directions):
    """Vectorised float64 version of ``ray_length_mp`` (directions normalised here).

    starts, directions: arrays broadcastable to (..., 3).  Returns lengths of shape (...).
    """
    e1, e2, a = basis_np(axis)
    p = np.asarray(starts, dtype=float) - np.asarray(base, dtype=float)
    d = np.asarray(directions, dtype=float)
    d = d / np.sqrt(np.sum(d * d, axis=-1, keepdims=True))
    px, py, pz = p @ e1, p @ e2, p @ a
    dx, dy, dz = d @ e1, d @ e2, d @ a
    px, py, pz, dx, dy, dz = np.broadcast_arrays(px, py, pz, dx, dy, dz)
    with np.errstate(divide="ignore", invalid="ignore"):
        A = dx * dx + dy * dy
        B = px * dx + py * dy
        cross = px * dy - py * dx
        disc = A * r * r - cross * cross
        sq = np.sqrt(np.where(disc >= 0, disc, 0.0))
        par = A == 0
        inside_c = (px * px + py * py) <= r * r
        lo_c = np.where(par, np.where(inside_c, -np.inf, np.inf), (-B - sq) / np.where(par, 1.0, A))
        hi_c = np.where(par, np.where(inside_c, np.inf, -np.inf), (-B + sq) / np.where(par, 1.0, A))
        miss = (~par) & (disc < 0)
        lo_c = np.where(miss, np.inf, lo_c)
        hi_c = np.where(miss, -np.inf, hi_c)
        flat = dz == 0
        dzs = np.where(flat, 1.0, dz)
        t0, t1 = -pz / dzs, (h - pz) / dzs
        in_slab = (pz >= 0) & (pz <= h)
        lo_s = np.where(flat, np.where(in_slab, -np.inf, np.inf), np.minimum(t0, t1))
        hi_s = np.where(flat, np.where(in_slab, np.inf, -np.inf), np.maximum(t0, t1))
        lo = np.maximum(np.maximum(lo_c, lo_s), 0.0)
        hi = np.minimum(hi_c, hi_s)
        return np.where(hi > lo, hi - lo, 0.0)


# ----------------------------------------------------------------------------- moments


def unit_moment(i: int, j: int, k: int):
    """Exact  (1/(2 pi)) * integral of x^i y^j z^k over the unit cylinder x^2+y^2<=1, |z|<=1
    (i.e. the mean of the monomial over the solid), as an mpf.

    Polar coordinates:  int_0^1 r^(i+j+1) dr * int_0^2pi cos^i sin^j dphi * int_-1^1 z^k dz.
    The angular integral is 2 * B((i+1)/2, (j+1)/2) for i, j both even and 0 otherwise.
    """
    if i % 2 or j % 2 or k % 2:
        return mp.mpf(0)
    radial = mp.mpf(1) / (i + j + 2)
    angular = 2 * mp.beta(mp.mpf(i + 1) / 2, mp.mpf(j + 1) / 2)
    axial = mp.mpf(2) / (k + 1)
    return radial * angular * axial / (2 * mp.pi)


def cylinder_volume(r, h):
    return mp.pi * mp.mpf(r) ** 2 * mp.mpf(h)


def local_coordinates(points, base, axis, r, h):
    """Coordinates (x/r, y/r, (z - h/2)/(h/2)) of lab-frame points in the cylinder frame, float64.
    The solid is  x^2 + y^2 <= 1, |z| <= 1  in these coordinates."""
    e1, e2, a = basis_np(axis)
    p = np.asarray(points, dtype=float) - np.asarray(base, dtype=float)
    return (p @ e1) / r, (p @ e2) / r, (p @ a - h / 2) / (h / 2)


# ----------------------------------------------------------------------------- reference rule


@lru_cache(maxsize=8)
def _unit_rule(nr: int, nphi: int, nz: int):
    """Product rule on the unit cylinder: Gauss-Legendre in s = r^2 on [0, 1] (area element
    r dr dphi = ds dphi / 2, so polynomials in x, y of degree < 2*nr in r^2 are exact), uniform in
    phi (offset by half a step), Gauss-Legendre in z on [-1, 1].  Weights sum to 2 pi."""
    xs, ws = np.polynomial.legendre.leggauss(nr)
    s = (xs + 1) / 2
    ws = ws / 2
    rr = np.sqrt(s)
    phi = (np.arange(nphi) + 0.5) * (2 * math.pi / nphi)
    zz, wz = np.polynomial.legendre.leggauss(nz)
    R, P, Z = np.meshgrid(rr, phi, zz, indexing="ij")
    W = ws[:, None, None] * (0.5 * 2 * math.pi / nphi) * wz[None, None, :] * np.ones_like(P)
    x = (R * np.cos(P)).ravel()
    y = (R * np.sin(P)).ravel()
    return x, y, Z.ravel(), W.ravel()


def reference_rule(base, axis, r, h, n=(32, 128, 32)):
    """Points (N, 3) inside the solid and weights (N,) summing to its volume."""
    x, y, z, w = _unit_rule(*n)
    e1, e2, a = basis_np(axis)
    b = np.asarray(base, dtype=float)
    pts = (b[None, :] + (x * r)[:, None] * e1[None, :] + (y * r)[:, None] * e2[None, :]
           + ((z + 1) * (h / 2))[:, None] * a[None, :])
    return pts, w * (r * r * h / 2)


def transmission_ref(base, axis, r, h, beam, detectors, mus, n=(32, 128, 32)):
    """(1/V) * integral over the solid of exp(-mu * (L_in + L_out)).

    L_in: path from the surface to the scattering point along ``beam`` (= length of the ray from
    the point in direction -beam); L_out: length of the ray from the point towards the detector.
    ``detectors``: (D, 3); ``mus``: sequence of attenuation coefficients (1/length).
    Returns an array (D, len(mus)).
    """
    pts, w = reference_rule(base, axis, r, h, n)
    vol = math.pi * r * r * h
    beam = np.asarray(beam, dtype=float)
    l_in = ray_lengths_np(base, axis, r, h, pts, -beam)
    out = np.empty((len(detectors), len(mus)))
    for i, det in enumerate(np.asarray(detectors, dtype=float)):
        l_out = ray_lengths_np(base, axis, r, h, pts, det[None, :] - pts)
        ltot = l_in + l_out
        for j, mu in enumerate(mus):
            out[i, j] = float(np.sum(w * np.exp(-mu * ltot))) / vol
    return out


# ----------------------------------------------------------------------------- self-tests


def selftest():
    with mp.workdps(50):
        _selftest()


def _selftest():
    mpf = mp.mpf
    # 1. frame is orthonormal and right-handed for awkward axes
    for ax in ([0, 0, 1], [0, 0, -1], [0.6, 0, -0.8], [1, 1e-12, 0], [-1, 2, -2], [1e-13, 0, -1]):
        e1, e2, a = basis_np(ax)
        m = np.array([e1, e2, a])
        assert np.allclose(m @ m.T, np.eye(3), atol=1e-15), ax
        assert abs(np.linalg.det(m) - 1) < 1e-14, ax
        n = np.asarray(ax, float)
        assert np.allclose(a, n / np.linalg.norm(n), atol=1e-15)
    # 2. hand-computed path lengths: cylinder along z, base at origin, r = 1, h = 2
    c = dict(base=[0, 0, 0], axis=[0, 0, 1], r=1, h=2)
    L = lambda s, d: ray_length_mp(start=s, direction=d, **c)["length"]  # noqa: E731
    assert L([0, 0, 1], [1, 0, 0]) == 1                      # centre to mantle
    assert L([0, 0, 1], [0, 0, 1]) == 1                      # centre to top cap
    assert L([0, 0, 1], [0, 0, -3]) == 1                     # non-unit direction
    assert L([-5, 0, 1], [1, 0, 0]) == 2                     # from outside through a diameter
    assert L([-5, 0, 1], [-1, 0, 0]) == 0                    # pointing away
    assert mp.almosteq(L([-5, mpf("0.6"), 1], [1, 0, 0]), mpf("1.6"), 1e-45)          # chord at distance 0.6
    assert L([-5, 1, 1], [1, 0, 0]) == 0                     # tangent line: zero length
    assert L([-5, mpf("1.5"), 1], [1, 0, 0]) == 0                   # misses
    assert L([0.5, 0, -4], [0, 0, 1]) == 2                   # parallel, through both caps
    assert ray_length_mp(start=[0.5, 0, -4], direction=[0, 0, -1], **c)["parallel"]
    assert not ray_length_mp(start=[0.5, 0, -4], direction=[1e-300, 0, -1], **c)["parallel"]
    assert L([1.5, 0, -4], [0, 0, 1]) == 0                   # parallel, outside
    assert L([0, 0, 3], [1, 0, 0]) == 0                      # above the slab, perpendicular
    assert mp.almosteq(L([-1, 0, 0], [1, 0, 1]), 2 * mp.sqrt(2), 1e-40)   # rim to rim diagonal
    assert mp.almosteq(L([0, 0, 0], [1, 0, 1]), mp.sqrt(2), 1e-40)
    # the same solid, oblique axis, described from the other end, translated
    ax = [mpf(3) / 13, mpf(4) / 13, -mpf(12) / 13]
    e1, e2, a = basis_mp(ax)
    b = [mpf(10), mpf(-20), mpf(5)]
    s = _axpy(-5, e1, _axpy(mpf("0.6"), e2, _axpy(1, a, b)))
    got = ray_length_mp(b, ax, 1, 2, s, e1)
    assert mp.almosteq(got["length"], mpf("1.6"), 1e-40)
    assert mp.almosteq(got["disc_rel"], 1 - mpf("0.36"), 1e-40)
    b2 = _axpy(2, a, b)
    got2 = ray_length_mp(b2, [-c_ for c_ in ax], 1, 2, s, e1)
    assert mp.almosteq(got2["length"], mpf("1.6"), 1e-40)
    # 3. numpy version agrees with the exact one
    starts = np.array([[0, 0, 1], [-5, 0.6, 1], [0.5, 0, -4], [0, 0, 3], [-1, 0, 0], [-5, 1.5, 1.0]])
    dirs = np.array([[1, 0, 0], [1, 0, 0], [0, 0, 1], [1, 0, 0], [1, 0, 1], [1, 0, 0.0]])
    want = [1, 1.6, 2, 0, 2 * math.sqrt(2), 0]
    got = ray_lengths_np([0, 0, 0], [0, 0, 1], 1.0, 2.0, starts, dirs)
    assert np.allclose(got, want, atol=1e-14), got
    # 4. moments of the unit cylinder: mean x^2 = 1/4, z^2 = 1/3, x^2 y^2 = 1/24, x^4 = 1/8
    assert unit_moment(0, 0, 0) == 1
    assert mp.almosteq(unit_moment(2, 0, 0), mpf(1) / 4, 1e-40)
    assert mp.almosteq(unit_moment(0, 2, 0), mpf(1) / 4, 1e-40)
    assert mp.almosteq(unit_moment(0, 0, 2), mpf(1) / 3, 1e-40)
    assert mp.almosteq(unit_moment(2, 2, 0), mpf(1) / 24, 1e-40)
    assert mp.almosteq(unit_moment(4, 0, 0), mpf(1) / 8, 1e-40)
    assert unit_moment(1, 0, 0) == 0 and unit_moment(2, 1, 0) == 0 and unit_moment(0, 0, 3) == 0
    # 5. the reference rule reproduces them and lies inside the solid
    pts, w = reference_rule([1, 2, 3], [0.6, 0, -0.8], 0.5, 3.0, n=(8, 16, 8))
    assert abs(w.sum() / (math.pi * 0.25 * 3.0) - 1) < 1e-13
    x, y, z = local_coordinates(pts, [1, 2, 3], [0.6, 0, -0.8], 0.5, 3.0)
    assert (x * x + y * y).max() < 1 and np.abs(z).max() < 1
    for (i, j, k) in [(2, 0, 0), (0, 0, 2), (2, 2, 0), (1, 0, 1), (4, 0, 2)]:
        q = float(np.sum(w * x**i * y**j * z**k) / w.sum())
        assert abs(q - float(unit_moment(i, j, k))) < 1e-13, (i, j, k, q)
    # 6. transmission: detector far away on the beam axis, cylinder perpendicular to the beam:
    #    every path is the full chord, T = (2/pi) int_-1^1 sqrt(1-x^2) exp(-2 mu sqrt(1-x^2)) dx
    mu = 0.5
    want = float(2 / mp.pi * mp.quad(lambda t: mp.sqrt(1 - t * t) * mp.exp(-2 * mu * mp.sqrt(1 - t * t)), [-1, 1]))
    got = transmission_ref([0, 0, 0], [0, 1, 0], 1.0, 1.0, [0, 0, 1], [[0, 0, 1e7]], [mu, 0.0])
    assert abs(got[0, 0] - want) < 2e-4 * want, (got, want)
    assert abs(got[0, 1] - 1) < 1e-12
