"""Deep structural snapshots of arbitrary Python / scipp / numpy object graphs (oracle of C09).

``freeze(obj)`` walks an object graph and returns a nested tuple structure in which every mutable
leaf has been *copied* (scipp objects by ``copy(deep=True)``, numpy arrays by ``copy()``, file-like
objects by their content).  ``diff(a, b)`` compares two frozen structures and returns ``None`` when
they are structurally identical, else a human-readable path to the first difference.  Nothing of
scippneutron is imported: objects of unknown classes are walked through their dataclass fields,
``__dict__`` or ``__slots__``.

Equality used at the leaves
* scipp Variable / DataArray / Dataset: ``sc.identical(..., equal_nan=True)`` (dims, shape, unit,
  dtype, values, variances, coords, masks), plus the data array name, the coordinate *order* and
  the alignment flags;
* numpy arrays: dtype, shape and ``array_equal`` with NaN == NaN;
* floats: ``==`` or both NaN;  everything hashable and immutable: ``==`` and same type;
* functions, classes, modules, generators and other opaque objects: identity (``is``).
"""

from __future__ import annotations

import dataclasses
import datetime as _dt
import enum
import io
import pathlib
import types

import numpy as np

_PRIMITIVE = (bool, int, float, complex, str, bytes, type(None))
_OPAQUE = (
    types.FunctionType, types.BuiltinFunctionType, types.MethodType, types.ModuleType, type,
    types.GeneratorType, types.CoroutineType,
)


class _Leaf:
    """A copied mutable leaf (kept out of tuples so that ``diff`` can dispatch on ``kind``)."""

    __slots__ = ("kind", "obj", "extra")

    def __init__(self, kind, obj, extra=None):
        self.kind = kind
        self.obj = obj
        self.extra = extra


def freeze(o, _path=()):
    import scipp as sc

    if isinstance(o, enum.Enum):
        return ("enum", type(o).__qualname__, o.name)
    if isinstance(o, _PRIMITIVE):
        return ("prim", type(o).__name__, o)
    if isinstance(o, sc.Variable):
        return _Leaf("var", o.copy(deep=True), bool(o.aligned))
    if isinstance(o, sc.DataArray):
        extra = (
            o.name,
            tuple((k, bool(v.aligned)) for k, v in o.coords.items()),
            tuple(o.masks.keys()),
        )
        return _Leaf("da", o.copy(deep=True), extra)
    if isinstance(o, sc.Dataset):
        return _Leaf("ds", o.copy(deep=True), tuple(o.keys()))
    if isinstance(o, sc.DataGroup):
        return ("datagroup", tuple((k, freeze(v, (*_path, id(o)))) for k, v in o.items()))
    if isinstance(o, sc.Unit | sc.DType):
        return ("prim", type(o).__name__, str(o))
    if isinstance(o, np.ndarray):
        return _Leaf("nd", o.copy(), (str(o.dtype), o.shape))
    if isinstance(o, np.generic):
        return ("prim", type(o).__name__, o.item())
    if isinstance(o, io.StringIO | io.BytesIO):
        return ("io", type(o).__name__, o.getvalue())
    if isinstance(o, _dt.datetime | _dt.date | _dt.timedelta | pathlib.PurePath):
        return ("prim", type(o).__name__, repr(o))
    if isinstance(o, _OPAQUE):
        return _Leaf("opaque", o)
    if id(o) in _path:
        return ("cycle", type(o).__qualname__)
    path = (*_path, id(o))
    if isinstance(o, dict):
        return ("dict", type(o).__qualname__,
                tuple((freeze(k, path), freeze(v, path)) for k, v in o.items()))
    if isinstance(o, list | tuple):
        return ("seq", type(o).__qualname__, tuple(freeze(v, path) for v in o))
    if isinstance(o, set | frozenset):
        items = sorted((freeze(v, path) for v in o), key=_sort_key)
        return ("set", type(o).__qualname__, tuple(items))
    if hasattr(o, "items") and hasattr(o, "keys") and not isinstance(o, type):
        # other mappings (e.g. scipp Coords views are handled through their owner)
        try:
            return ("dict", type(o).__qualname__,
                    tuple((freeze(k, path), freeze(v, path)) for k, v in o.items()))
        except Exception:  # noqa: BLE001 - fall through to attribute walk
            pass
    fields = _fields_of(o)
    if fields is None:
        return _Leaf("opaque", o)
    return ("obj", type(o).__qualname__, tuple((k, freeze(v, path)) for k, v in fields))


def _fields_of(o):
    if dataclasses.is_dataclass(o) and not isinstance(o, type):
        out = []
        for f in dataclasses.fields(o):
            try:
                out.append((f.name, getattr(o, f.name)))
            except AttributeError:
                out.append((f.name, None))
        return out
    if hasattr(o, "__dict__"):
        out = list(vars(o).items())
        extra = getattr(o, "__pydantic_extra__", None)
        if extra:
            out.append(("__pydantic_extra__", dict(extra)))
        return out
    names = []
    for klass in type(o).__mro__:
        slots = klass.__dict__.get("__slots__", ())
        if isinstance(slots, str):
            slots = (slots,)
        names.extend(s for s in slots if s not in ("__weakref__", "__dict__"))
    if names:
        return [(n, getattr(o, n, None)) for n in names]
    return None


def _sort_key(frozen):
    return repr(_strip(frozen))


def _strip(fr):
    if isinstance(fr, _Leaf):
        if fr.kind == "opaque":
            return ("opaque", id(fr.obj))
        return (fr.kind, repr(fr.obj))
    if isinstance(fr, tuple):
        return tuple(_strip(x) for x in fr)
    return fr


def diff(a, b, where="") -> str | None:
    """None if the frozen structures are identical, else a description of the first difference."""
    import scipp as sc

    if isinstance(a, _Leaf) or isinstance(b, _Leaf):
        if not (isinstance(a, _Leaf) and isinstance(b, _Leaf)) or a.kind != b.kind:
            return f"{where}: kind changed from {_kind(a)} to {_kind(b)}"
        if a.kind == "opaque":
            return None if a.obj is b.obj else f"{where}: object identity changed"
        if a.kind == "nd":
            if a.extra != b.extra:
                return f"{where}: ndarray dtype/shape {a.extra} -> {b.extra}"
            eq = (np.array_equal(a.obj, b.obj, equal_nan=True)
                  if a.obj.dtype.kind in "fc" else np.array_equal(a.obj, b.obj))
            return None if eq else f"{where}: ndarray values {a.obj!r} -> {b.obj!r}"
        if a.extra != b.extra:
            return f"{where}: {a.kind} metadata {a.extra} -> {b.extra}"
        if not sc.identical(a.obj, b.obj, equal_nan=True):
            return f"{where}: {_short(a.obj)} -> {_short(b.obj)}"
        return None
    if not isinstance(a, tuple) or not isinstance(b, tuple):
        return None if a == b else f"{where}: {a!r} -> {b!r}"
    if a[0] != b[0]:
        return f"{where}: node {a[0]} -> {b[0]}"
    tag = a[0]
    if tag in ("prim", "enum", "io", "cycle"):
        if a[1] != b[1]:
            return f"{where}: type {a[1]} -> {b[1]}"
        if tag == "cycle":
            return None
        x, y = a[2], b[2]
        if x == y or (isinstance(x, float) and isinstance(y, float) and x != x and y != y):
            return None
        return f"{where}: {_clip(x)} -> {_clip(y)}"
    if tag == "datagroup":
        return _diff_pairs(a[1], b[1], where, keyed=True)
    if a[1] != b[1]:
        return f"{where}: type {a[1]} -> {b[1]}"
    if tag == "dict":
        ka = [_strip(k) for k, _ in a[2]]
        kb = [_strip(k) for k, _ in b[2]]
        if ka != kb:
            return f"{where}: dict keys {_clip(_keys(a[2]))} -> {_clip(_keys(b[2]))}"
        for (k, va), (_, vb) in zip(a[2], b[2], strict=True):
            d = diff(va, vb, f"{where}[{_keyrepr(k)}]")
            if d:
                return d
        return None
    if tag in ("seq", "set"):
        if len(a[2]) != len(b[2]):
            return f"{where}: length {len(a[2])} -> {len(b[2])}"
        for i, (va, vb) in enumerate(zip(a[2], b[2], strict=True)):
            d = diff(va, vb, f"{where}[{i}]")
            if d:
                return d
        return None
    if tag == "obj":
        return _diff_pairs(a[2], b[2], where, keyed=True, sep=".")
    raise AssertionError(f"unknown node {tag}")


def _diff_pairs(pa, pb, where, keyed, sep=None):
    na, nb = [k for k, _ in pa], [k for k, _ in pb]
    if na != nb:
        return f"{where}: members {na} -> {nb}"
    for (k, va), (_, vb) in zip(pa, pb, strict=True):
        d = diff(va, vb, f"{where}.{k}" if sep else f"{where}[{k!r}]")
        if d:
            return d
    return None


def _kind(x):
    return x.kind if isinstance(x, _Leaf) else (x[0] if isinstance(x, tuple) else type(x).__name__)


def _keys(pairs):
    return [_keyrepr(k) for k, _ in pairs]


def _keyrepr(k):
    if isinstance(k, tuple) and k and k[0] in ("prim", "enum"):
        return repr(k[2])
    if isinstance(k, tuple) and k and k[0] == "seq":
        return "(" + ", ".join(_keyrepr(x) for x in k[2]) + ")"
    return _clip(_strip(k))


def _clip(x, n=200):
    s = x if isinstance(x, str) else repr(x)
    return s if len(s) <= n else s[:n] + "..."


def _short(v):
    import scipp as sc

    try:
        if isinstance(v, sc.Variable):
            vals = np.asarray(v.values).ravel()[:6].tolist() if v.bins is None else "binned"
            var = "" if v.variances is None or v.bins is not None else \
                f" var={np.asarray(v.variances).ravel()[:6].tolist()}"
            return f"Variable(dims={v.dims}, shape={v.shape}, unit={v.unit}, dtype={v.dtype}, values={vals}{var})"
        return _clip(repr(v), 300)
    except Exception:  # noqa: BLE001
        return _clip(repr(v), 300)


def selftest():
    import scipp as sc

    v = sc.array(dims=["x"], values=[1.0, np.nan, 3.0], unit="m")
    da = sc.DataArray(v.copy(), coords={"x": sc.arange("x", 3.0, unit="s")})

    @dataclasses.dataclass
    class D:
        a: sc.Variable
        b: list

    class S:
        __slots__ = ("p", "q")

        def __init__(self):
            self.p = {"k": v}
            self.q = {1, 2}

    s = S()
    objs = {"v": v, "da": da, "d": D(v, [np.arange(3), "t", 1.5, float("nan")]), "s": s,
            "f": io.StringIO("abc"), "fn": freeze, "g": (i for i in range(3))}
    f0 = freeze(objs)
    assert diff(f0, freeze(objs)) is None
    v.values[0] = 2.0                      # shared by objs['v'], D.a and S.p['k']
    assert "['v']" in diff(f0, freeze(objs)) or "v" in diff(f0, freeze(objs))
    v.values[0] = 1.0
    assert diff(f0, freeze(objs)) is None
    v.unit = "mm"
    assert diff(f0, freeze(objs)) is not None
    v.unit = "m"
    da.coords["x"] *= 2.0
    assert "da" in diff(f0, freeze(objs))
    da.coords["x"] *= 0.5
    da.coords.set_aligned("x", False)
    assert "metadata" in diff(f0, freeze(objs))
    da.coords.set_aligned("x", True)
    da.masks["m"] = sc.array(dims=["x"], values=[True, False, False])
    assert diff(f0, freeze(objs)) is not None
    del da.masks["m"]
    assert diff(f0, freeze(objs)) is None
    objs["d"].b[0][1] = 7
    assert "ndarray" in diff(f0, freeze(objs))
    objs["d"].b[0][1] = 1
    objs["d"].b.append(1)
    assert "length" in diff(f0, freeze(objs))
    objs["d"].b.pop()
    s.q.add(3)
    assert diff(f0, freeze(objs)) is not None
    s.q.discard(3)
    s.p["z"] = 1
    assert "dict keys" in diff(f0, freeze(objs))
    del s.p["z"]
    objs["f"].write("x")
    assert diff(f0, freeze(objs)) is not None
    objs["f"].seek(0)
    objs["f"].truncate()
    objs["f"].write("abc")
    assert diff(f0, freeze(objs)) is None
    # dict order is part of the structure
    d1, d2 = {"a": 1, "b": 2}, {"b": 2, "a": 1}
    assert diff(freeze(d1), freeze(d2)) is not None
    # binned variable
    ev = sc.DataArray(sc.ones(dims=["event"], shape=[4]),
                      coords={"tof": sc.arange("event", 4.0, unit="us")})
    b = sc.bins(begin=sc.array(dims=["y"], values=[0, 2], unit=None), dim="event", data=ev)
    fb = freeze(b)
    assert diff(fb, freeze(b)) is None
    b.bins.coords["tof"] *= 2.0
    assert diff(fb, freeze(b)) is not None
