"""Goodness-of-fit statistics and float64 peak shapes, written from the documentation.

From the ``FitResult`` attribute docstrings of ``scippneutron.peaks``:

    chi^2      = sum_i (y_i - f(x_i))^2 / sigma_i^2
    chi^2_nu   = chi^2 / nu,            nu = N - k   (N points in the window, k parameters)
    p          = 1 - F(chi^2; nu)       F = CDF of the chi-square distribution
                = Q(nu/2, chi^2/2)      (regularised upper incomplete gamma function; mpmath)
    AIC        = 2k - 2 ln L            with  -2 ln L = N ln(chi^2 / N)  for Gaussian errors
                                        (the form the package documents through its fit procedure)

The shapes are those of ``ref.peakshape`` (class docstrings of ``peaks.model``), evaluated in float64
numpy for whole windows; the self-test pins them to the 50-digit versions.  Nothing here imports
scipp, scipy or scippneutron.
"""

import math

import mpmath as mp
import numpy as np

from . import peakshape as ps

SQRT_2PI = math.sqrt(2 * math.pi)
SQRT_2LN2 = math.sqrt(2 * math.log(2))
FWHM_GAUSS = 2 * SQRT_2LN2


def gaussian(x, amplitude, loc, scale):
    x = np.asarray(x, dtype=np.float64)
    return amplitude / (SQRT_2PI * scale) * np.exp(-((x - loc) ** 2) / (2 * scale * scale))


def lorentzian(x, amplitude, loc, scale):
    x = np.asarray(x, dtype=np.float64)
    return amplitude / math.pi * scale / ((x - loc) ** 2 + scale * scale)


def pseudo_voigt(x, amplitude, loc, scale, fraction):
    sg = scale / SQRT_2LN2  # same FWHM (2*scale) for both components
    return fraction * lorentzian(x, amplitude, loc, scale) + (1 - fraction) * gaussian(
        x, amplitude, loc, sg)


def peak(kind, x, p):
    """p: dict with amplitude, loc, scale (and fraction for pseudo_voigt)."""
    if kind == "gaussian":
        return gaussian(x, p["amplitude"], p["loc"], p["scale"])
    if kind == "lorentzian":
        return lorentzian(x, p["amplitude"], p["loc"], p["scale"])
    if kind == "pseudo_voigt":
        return pseudo_voigt(x, p["amplitude"], p["loc"], p["scale"], p["fraction"])
    raise KeyError(kind)


def polynomial(x, coeffs):
    x = np.asarray(x, dtype=np.float64)
    out = np.zeros_like(x)
    for i, a in enumerate(coeffs):
        out = out + a * x**i
    return out


def fwhm(kind, scale):
    return FWHM_GAUSS * scale if kind == "gaussian" else 2 * scale


def chi_square(y, var, f):
    r = np.asarray(y, dtype=np.float64) - np.asarray(f, dtype=np.float64)
    return float(math.fsum((r * r / np.asarray(var, dtype=np.float64)).tolist()))


def p_value(chisq, nu):
    """Q(nu/2, chisq/2), the survival function of the chi-square distribution."""
    if chisq <= 0:
        return 1.0
    return float(mp.gammainc(mp.mpf(nu) / 2, mp.mpf(chisq) / 2, mp.inf, regularized=True))


def aic(chisq, n, k):
    return n * math.log(chisq / n) + 2 * k


def statistics(y, var, f, k):
    n = len(y)
    c = chi_square(y, var, f)
    nu = n - k
    return {"chisq": c, "nu": nu, "red_chisq": c / nu, "p_value": p_value(c, nu),
            "aic": aic(c, n, k), "n": n}


def min_chisq_polynomial(x, y, var, degree):
    """Global minimum of chi^2 over polynomials of the given degree (weighted linear least
    squares in a centred, scaled basis; the polynomial space does not depend on the basis)."""
    x = np.asarray(x, dtype=np.float64)
    y = np.asarray(y, dtype=np.float64)
    w = 1.0 / np.sqrt(np.asarray(var, dtype=np.float64))
    mid = 0.5 * (x[0] + x[-1])
    half = 0.5 * (x[-1] - x[0]) or 1.0
    t = (x - mid) / half
    a = np.vander(t, degree + 1, increasing=True) * w[:, None]
    coef, *_ = np.linalg.lstsq(a, y * w, rcond=None)
    r = a @ coef - y * w
    return float(math.fsum((r * r).tolist()))


def selftest():
    xs = [-3.0, -0.25, 0.0, 0.5, 1.75, 40.0]
    for x in xs:
        for (a, m, s) in ((2.5, 0.5, 0.75), (1e-3, -1.0, 12.0), (7.0, 1.75, 1e-2)):
            for got, ref in (
                (gaussian([x], a, m, s)[0], ps.gaussian(x, a, m, s)),
                (lorentzian([x], a, m, s)[0], ps.lorentzian(x, a, m, s)),
                (pseudo_voigt([x], a, m, s, 0.3)[0], ps.pseudo_voigt(x, a, m, s, 0.3)),
            ):
                z = float(ps.gaussian_exponent(x, m, s / SQRT_2LN2))
                tol = 1e-14 * max(1.0, z)
                if ref == 0:
                    assert got == 0
                elif abs(ref) > mp.mpf("1e-300"):
                    assert abs(mp.mpf(float(got)) - ref) <= tol * abs(ref), (x, a, m, s, got, ref)
    assert polynomial([2.0], [1.0, -3.0, 0.5])[0] == -3.0
    # hand-computed statistics
    assert abs(p_value(2.0, 2) - math.exp(-1.0)) < 1e-15            # Q(1, x) = exp(-x)
    assert abs(p_value(1.0, 1) - math.erfc(1 / math.sqrt(2))) < 1e-15  # Q(1/2, x) = erfc(sqrt x)
    assert abs(p_value(6.0, 4) - 4 * math.exp(-3.0)) < 1e-15        # Q(2, x) = (1 + x) exp(-x)
    s = statistics([1.0, 2.0, 4.0, 4.0], [1.0, 4.0, 1.0, 0.25], [0.0, 0.0, 3.0, 5.0], 2)
    # residuals 1, 2, 1, -1 -> 1/1 + 4/4 + 1/1 + 1/0.25 = 7
    assert s["chisq"] == 7.0 and s["nu"] == 2 and s["red_chisq"] == 3.5
    assert abs(s["aic"] - (4 * math.log(7.0 / 4) + 4)) < 1e-15
    assert abs(s["p_value"] - math.exp(-3.5)) < 1e-15
    assert abs(fwhm("gaussian", 1.0) - 2.3548200450309493) < 1e-15 and fwhm("lorentzian", 2.0) == 4.0
    # exact parabola has zero residual; a line through it does not
    x = np.linspace(3.0, 5.0, 9)
    y = 1 - 2 * x + 0.5 * x * x
    assert min_chisq_polynomial(x, y, np.ones(9), 2) < 1e-24
    # hand: y = t^2 on t = -1, 0, 1 with a line -> best constant 2/3, residuals 1/3,-2/3,1/3
    assert abs(min_chisq_polynomial([-1.0, 0.0, 1.0], [1.0, 0.0, 1.0], [1.0, 1.0, 1.0], 1) - 2 / 3) < 1e-14
