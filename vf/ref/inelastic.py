"""Inelastic time-of-flight kinematics in 50-digit arithmetic (SI in, SI out).

A neutron flies L1 with kinetic energy Ei (speed v = sqrt(2E/m_n)), scatters, flies L2 with
energy Ef and is detected at t = L1/v(Ei) + L2/v(Ef).  Energy transfer is Ei - Ef.

Direct geometry: Ei is known, so the first leg takes t0 = L1/v(Ei) and the second leg has
speed L2/(t - t0).  Indirect geometry: Ef is known, t0 = L2/v(Ef), first-leg speed L1/(t - t0).
An arrival at or before t0 leaves no time for the other leg: unphysical (``None``).

Written from the definition E = m_n v^2 / 2 only; m_n is the value scipp.constants exposes.
"""

import mpmath as mp

from . import kin

mp.mp.dps = 50


def flight_time(L, E):
    """Time to fly the distance L with kinetic energy E."""
    return L / kin.velocity_from_energy(E)


def arrival_time(L1, Ei, L2, Ef):
    return flight_time(L1, Ei) + flight_time(L2, Ef)


def energy_of_leg(L, dt):
    """Kinetic energy of a neutron that needs dt > 0 for the distance L."""
    v = L / dt
    return kin.consts()["m_n"] * v * v / 2


def t0_direct(L1, Ei):
    return flight_time(L1, Ei)


def t0_indirect(L2, Ef):
    return flight_time(L2, Ef)


def leg_split(mode, t, L1, L2, E_fixed):
    """(t0, L_other): flight time of the fixed-energy leg and the length of the other leg."""
    if mode == "direct":
        return flight_time(L1, E_fixed), L2
    if mode == "indirect":
        return flight_time(L2, E_fixed), L1
    raise KeyError(mode)


def energy_transfer(mode, t, L1, L2, E_fixed):
    """Ei - Ef for arrival time t, or None when t <= t0 (unphysical).

    Returns (dE, E_other, t0) with E_other the energy deduced for the leg whose energy is
    not given (Ef for direct, Ei for indirect).
    """
    t0, L_other = leg_split(mode, t, L1, L2, E_fixed)
    dt = t - t0
    if dt <= 0:
        return None, None, t0
    E_other = energy_of_leg(L_other, dt)
    dE = E_fixed - E_other if mode == "direct" else E_other - E_fixed
    return dE, E_other, t0


def selftest():
    meV = mp.mpf("1.602176634e-22")
    # 1 angstrom neutron: 81.8042 meV, 3956.034 m/s (textbook).  L1 = 3.956034 m -> t0 = 1 ms.
    Ei = mp.mpf("81.8042") * meV
    L = mp.mpf("3.956034")
    t0 = flight_time(L, Ei)
    assert abs(t0 - mp.mpf("1e-3")) < mp.mpf("1e-8"), t0
    # second leg of the same length in 2 ms: half the speed, a quarter of the energy
    dE, Ef, t0b = energy_transfer("direct", mp.mpf("3e-3"), L, L, Ei)
    assert t0b == t0
    assert abs(Ef / meV - mp.mpf("20.45105")) < mp.mpf("1e-3"), Ef / meV
    assert abs(dE / meV - mp.mpf("61.35315")) < mp.mpf("1e-3"), dE / meV
    # indirect, same flight read the other way round: Ef = 20.45105 meV known, t0 = 2 ms
    dE2, Ei2, t02 = energy_transfer("indirect", mp.mpf("3e-3"), L, L, Ef)
    assert abs(t02 - mp.mpf("2e-3")) < mp.mpf("1e-7"), t02
    assert mp.almosteq(Ei2, Ei, rel_eps=mp.mpf("1e-40"))
    assert mp.almosteq(dE2, dE, rel_eps=mp.mpf("1e-40"))
    # construction and inversion agree for unrelated numbers
    Ei, Ef, L1, L2 = 7 * meV, mp.mpf("0.3") * meV, mp.mpf(25), mp.mpf("1.5")
    t = arrival_time(L1, Ei, L2, Ef)
    for mode, Efix in (("direct", Ei), ("indirect", Ef)):
        dE, _, _ = energy_transfer(mode, t, L1, L2, Efix)
        assert mp.almosteq(dE, Ei - Ef, rel_eps=mp.mpf("1e-40")), mode
    # at and before t0: unphysical
    assert energy_transfer("direct", t0_direct(L1, Ei), L1, L2, Ei)[0] is None
    assert energy_transfer("indirect", t0_indirect(L2, Ef) / 2, L1, L2, Ef)[0] is None
    assert energy_transfer("direct", mp.mpf(0), L1, L2, Ei)[0] is None
