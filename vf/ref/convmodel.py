"""Independent model of what the top-level conversion is documented to do.

Written from
  * the user guide "Coordinate Transformations" (table input coord -> output coord -> equation; the
    walk "if the coordinate is found in the metadata no transformation is performed, otherwise
    compute it from its inputs, which are found or computed in the same way; if the top of the graph
    is reached without finding all required inputs, the transformation fails"),
  * the module docs of ``conversion.beamline`` (incident_beam = sample - source, scattered_beam =
    position - sample, L1/L2 their lengths, Ltotal = L1 + L2, without scattering
    Ltotal = |position - source|, cos 2theta = b1.b2 / |b1||b2|),
  * the kernel docstrings of ``conversion.tof`` (formula and argument names of every conversion) and
    the ``start`` documentation of ``conversion.graph.tof`` (which input coordinate offers which
    output: dspacing from energy/tof/wavelength, energy from tof/wavelength, Q / Q vector / hkl from
    tof/wavelength, wavelength from energy/tof/Q, kinematic and inelastic graphs from tof only),
  * the messages of ``scippneutron.convert``: energy transfer needs exactly one of incident_energy /
    final_energy (both = ambiguous, none = not inelastic data); an elastic conversion from or to
    ``energy`` while inelastic coordinates are present is refused.

Nothing here imports scippneutron; the only thing taken from scipp is the value of h and m_n.
Values are numpy arrays of shape (S, T) + element shape, S in {1, NS} (per pixel), T in {1, NT}
(along the origin coordinate); vectors carry a trailing 3, matrices a trailing 3x3.
All quantities are in fixed units: m, rad, us, meV, angstrom, 1/angstrom.
"""

from __future__ import annotations

import math
from dataclasses import dataclass
from functools import lru_cache
from typing import Callable

import numpy as np

GEOMETRY = ("position", "source_position", "sample_position", "incident_beam", "scattered_beam",
            "L1", "L2", "Ltotal", "two_theta")
ENERGY_INPUTS = ("incident_energy", "final_energy")
COORDS = GEOMETRY + ENERGY_INPUTS          # the 11 coordinates whose presence is enumerated
ORIGINS = ("tof", "wavelength", "energy", "Q")
GEOMETRY_TARGETS = ("incident_beam", "scattered_beam", "L1", "L2", "Ltotal", "two_theta")
TARGETS = ("wavelength", "energy", "dspacing", "Q", "Qx", "Qy", "Qz", "Q_vec", "hkl_vec", "h", "k",
           "l", "ub_matrix", "time_at_sample", "energy_transfer", *GEOMETRY_TARGETS)

# extra (always supplied) inputs of some targets
HKL_EXTRAS = ("u_matrix", "b_matrix", "sample_rotation")
EXTRAS = {
    "hkl_vec": HKL_EXTRAS, "h": HKL_EXTRAS, "k": HKL_EXTRAS, "l": HKL_EXTRAS,
    "ub_matrix": ("u_matrix", "b_matrix"),
    "time_at_sample": ("pulse_time",),
}

UNIT = {
    "tof": "us", "wavelength": "angstrom", "energy": "meV", "Q": "1/angstrom",
    "position": "m", "source_position": "m", "sample_position": "m", "incident_beam": "m",
    "scattered_beam": "m", "L1": "m", "L2": "m", "Ltotal": "m", "two_theta": "rad",
    "incident_energy": "meV", "final_energy": "meV", "pulse_time": "us",
    "u_matrix": "dimensionless", "b_matrix": "1/angstrom", "sample_rotation": "dimensionless",
    "dspacing": "angstrom", "Qx": "1/angstrom", "Qy": "1/angstrom", "Qz": "1/angstrom",
    "Q_vec": "1/angstrom", "hkl_vec": "dimensionless", "h": "dimensionless", "k": "dimensionless",
    "l": "dimensionless", "ub_matrix": "1/angstrom", "time_at_sample": "us",
    "energy_transfer": "meV",
}
KIND = {  # element kind of every quantity
    **{n: "scalar" for n in UNIT},
    **{n: "vector" for n in ("position", "source_position", "sample_position", "incident_beam",
                             "scattered_beam", "Q_vec", "hkl_vec")},
    **{n: "matrix" for n in ("u_matrix", "b_matrix", "sample_rotation", "ub_matrix")},
}

MEV = 1.602176634e-22      # J, exact SI
ANGSTROM = 1e-10           # m
US = 1e-6                  # s

_const: dict = {}


def consts():
    if not _const:
        import scipp.constants as c

        assert str(c.h.unit) == "J*s" and str(c.m_n.unit) == "kg"
        _const["h"] = float(c.h.value)
        _const["m_n"] = float(c.m_n.value)
    return _const


# --------------------------------------------------------------------------- formulas (fixed units)


def _norm(v):
    return np.sqrt(np.sum(v * v, axis=-1))


def f_incident_beam(source_position, sample_position):
    return sample_position - source_position


def f_scattered_beam(position, sample_position):
    return position - sample_position


def f_length(beam):
    return _norm(beam)


def f_ltotal_scatter(L1, L2):
    return L1 + L2


def f_ltotal_no_scatter(source_position, position):
    return _norm(position - source_position)


def f_two_theta(incident_beam, scattered_beam):
    # angle between the beams; atan2(|a x b|, a . b) (not the Kahan form the package uses)
    a, b = np.broadcast_arrays(incident_beam, scattered_beam)
    return np.arctan2(_norm(np.cross(a, b)), np.sum(a * b, axis=-1))


def f_wavelength_from_tof(tof, Ltotal):
    c = consts()
    return c["h"] * (tof * US) / (c["m_n"] * Ltotal) / ANGSTROM


def f_energy_from_tof(tof, Ltotal):
    c = consts()
    return c["m_n"] * Ltotal**2 / (2 * (tof * US) ** 2) / MEV


def f_dspacing_from_tof(tof, Ltotal, two_theta):
    return f_wavelength_from_tof(tof, Ltotal) / (2 * np.sin(two_theta / 2))


def f_energy_from_wavelength(wavelength):
    c = consts()
    return c["h"] ** 2 / (2 * c["m_n"] * (wavelength * ANGSTROM) ** 2) / MEV


def f_wavelength_from_energy(energy):
    c = consts()
    return c["h"] / np.sqrt(2 * c["m_n"] * energy * MEV) / ANGSTROM


def f_dspacing_from_wavelength(wavelength, two_theta):
    return wavelength / (2 * np.sin(two_theta / 2))


def f_dspacing_from_energy(energy, two_theta):
    return f_wavelength_from_energy(energy) / (2 * np.sin(two_theta / 2))


def f_q_from_wavelength(wavelength, two_theta):
    return 4 * math.pi * np.sin(two_theta / 2) / wavelength


def f_wavelength_from_q(Q, two_theta):
    return 4 * math.pi * np.sin(two_theta / 2) / Q


def _q_vec(wavelength, incident_beam, scattered_beam):
    e_i = incident_beam / _norm(incident_beam)[..., None]
    e_f = scattered_beam / _norm(scattered_beam)[..., None]
    return (2 * math.pi / wavelength)[..., None] * (e_i - e_f)


def f_q_element(i):
    def f(wavelength, incident_beam, scattered_beam):
        return _q_vec(wavelength, incident_beam, scattered_beam)[..., i]
    return f


def f_q_vec(Qx, Qy, Qz):
    return np.stack(np.broadcast_arrays(Qx, Qy, Qz), axis=-1)


def f_ub(u_matrix, b_matrix):
    return u_matrix @ b_matrix


def f_hkl_vec(Q_vec, ub_matrix, sample_rotation):
    # Q = 2 pi R UB (h, k, l)^T  solved for (h, k, l)
    m = sample_rotation @ ub_matrix
    return np.linalg.solve(m, Q_vec[..., None])[..., 0] / (2 * math.pi)


def f_hkl_element(i):
    def f(hkl_vec):
        return hkl_vec[..., i]
    return f


def f_time_at_sample(pulse_time, tof, L2, wavelength):
    c = consts()
    flight = L2 * (wavelength * ANGSTROM) * c["m_n"] / c["h"] / US
    return pulse_time + tof - flight


def _t0(length, energy):
    c = consts()
    return length * np.sqrt(c["m_n"] / (2 * energy * MEV)) / US


def f_energy_transfer_direct(tof, L1, L2, incident_energy):
    c = consts()
    dt = (tof - _t0(L1, incident_energy)) * US
    with np.errstate(all="ignore"):
        e = incident_energy - c["m_n"] * L2**2 / (2 * dt**2) / MEV
    return np.where(dt <= 0, np.nan, e)


def f_energy_transfer_indirect(tof, L1, L2, final_energy):
    c = consts()
    dt = (tof - _t0(L2, final_energy)) * US
    with np.errstate(all="ignore"):
        e = c["m_n"] * L1**2 / (2 * dt**2) / MEV - final_energy
    return np.where(dt <= 0, np.nan, e)


# --------------------------------------------------------------------------- rule tables


@dataclass(frozen=True)
class Rule:
    inputs: tuple
    fn: Callable
    doc: str = ""


def _beamline(scatter: bool) -> dict:
    if not scatter:
        return {"Ltotal": Rule(("source_position", "position"), f_ltotal_no_scatter,
                               "|position - source_position|")}
    return {
        "incident_beam": Rule(("source_position", "sample_position"), f_incident_beam),
        "scattered_beam": Rule(("position", "sample_position"), f_scattered_beam),
        "L1": Rule(("incident_beam",), f_length),
        "L2": Rule(("scattered_beam",), f_length),
        "Ltotal": Rule(("L1", "L2"), f_ltotal_scatter),
        "two_theta": Rule(("incident_beam", "scattered_beam"), f_two_theta),
    }


def _q_family() -> dict:
    return {
        "Q": Rule(("wavelength", "two_theta"), f_q_from_wavelength),
        "Qx": Rule(("wavelength", "incident_beam", "scattered_beam"), f_q_element(0)),
        "Qy": Rule(("wavelength", "incident_beam", "scattered_beam"), f_q_element(1)),
        "Qz": Rule(("wavelength", "incident_beam", "scattered_beam"), f_q_element(2)),
        "Q_vec": Rule(("Qx", "Qy", "Qz"), f_q_vec),
        "ub_matrix": Rule(("u_matrix", "b_matrix"), f_ub),
        "hkl_vec": Rule(("Q_vec", "ub_matrix", "sample_rotation"), f_hkl_vec),
        "h": Rule(("hkl_vec",), f_hkl_element(0)),
        "k": Rule(("hkl_vec",), f_hkl_element(1)),
        "l": Rule(("hkl_vec",), f_hkl_element(2)),
    }


def _elastic(origin: str) -> dict:
    if origin == "tof":
        return {
            "wavelength": Rule(("tof", "Ltotal"), f_wavelength_from_tof),
            "energy": Rule(("tof", "Ltotal"), f_energy_from_tof),
            "dspacing": Rule(("tof", "Ltotal", "two_theta"), f_dspacing_from_tof),
            "time_at_sample": Rule(("pulse_time", "tof", "L2", "wavelength"), f_time_at_sample),
            **_q_family(),
        }
    if origin == "wavelength":
        return {
            "energy": Rule(("wavelength",), f_energy_from_wavelength),
            "dspacing": Rule(("wavelength", "two_theta"), f_dspacing_from_wavelength),
            **_q_family(),
        }
    if origin == "energy":
        return {
            "wavelength": Rule(("energy",), f_wavelength_from_energy),
            "dspacing": Rule(("energy", "two_theta"), f_dspacing_from_energy),
        }
    if origin == "Q":
        return {"wavelength": Rule(("Q", "two_theta"), f_wavelength_from_q)}
    return {}       # e.g. origin 'position': only the beamline quantities are on offer


def _kinematic_from_tof() -> dict:
    return {
        "wavelength": Rule(("tof", "Ltotal"), f_wavelength_from_tof),
        "energy": Rule(("tof", "Ltotal"), f_energy_from_tof),
    }


AMBIGUOUS = "ambiguous"


def energy_mode(origin: str, target: str, present) -> str:
    """'elastic' | 'direct' | 'indirect' | AMBIGUOUS, from the presence of E_i / E_f."""
    has = [n for n in ENERGY_INPUTS if n in present]
    if target == "energy_transfer":
        if len(has) == 2:
            return AMBIGUOUS
        if not has:
            return "elastic"      # not inelastic data: nothing offers energy_transfer
        return "direct" if has[0] == "incident_energy" else "indirect"
    if "energy" in (origin, target) and has:
        return AMBIGUOUS          # elastic energy requested on data carrying inelastic coordinates
    return "elastic"


@lru_cache(maxsize=None)
def rules_for(origin: str, scatter: bool, mode: str) -> dict:
    """All documented rules on offer for this origin / scatter flag / energy mode."""
    if not scatter:
        # no scattering: straight flight path, kinematics from time-of-flight only
        return {**_beamline(False), **_kinematic_from_tof()}
    table = _beamline(True)
    if mode == "elastic":
        table.update(_elastic(origin))
    elif mode == "direct":
        table["energy_transfer"] = Rule(("tof", "L1", "L2", "incident_energy"),
                                        f_energy_transfer_direct)
    elif mode == "indirect":
        table["energy_transfer"] = Rule(("tof", "L1", "L2", "final_energy"),
                                        f_energy_transfer_indirect)
    else:
        raise ValueError(mode)
    return table


# --------------------------------------------------------------------------- evaluation


class NotDerivable(Exception):
    def __init__(self, name):
        super().__init__(name)
        self.name = name


def derivable(name: str, rules: dict, present, _memo=None) -> bool:
    memo = {} if _memo is None else _memo
    if name in memo:
        return memo[name]
    if name in present:
        memo[name] = True
        return True
    rule = rules.get(name)
    memo[name] = False           # guards against cycles (there are none)
    ok = rule is not None and all(derivable(i, rules, present, memo) for i in rule.inputs)
    memo[name] = ok
    return ok


def closure(name: str, rules: dict) -> set:
    """Every quantity the rule of ``name`` can draw on, transitively (excluding ``name``)."""
    out: set = set()
    stack = list(rules[name].inputs) if name in rules else []
    while stack:
        n = stack.pop()
        if n in out:
            continue
        out.add(n)
        if n in rules:
            stack.extend(rules[n].inputs)
    return out


@dataclass
class Outcome:
    status: str                   # 'value' | 'not-derivable' | 'ambiguous'
    value: np.ndarray | None = None
    missing: str | None = None    # first quantity that could not be found or computed
    fetched: tuple = ()           # supplied coordinates that were used
    computed: tuple = ()          # quantities computed by a rule, in evaluation order
    shadowing: tuple = ()         # supplied coordinates used although derivable from the others
    mode: str = "elastic"


def evaluate(origin: str, target: str, scatter: bool, env: dict) -> Outcome:
    """Expected outcome of convert(origin, target, scatter) on data carrying ``env`` (name -> array).

    Bottom-up evaluation, a supplied coordinate takes precedence over a derivable one."""
    mode = energy_mode(origin, target, env)
    if mode == AMBIGUOUS:
        return Outcome("ambiguous", mode=mode)
    rules = rules_for(origin, scatter, mode)
    fetched: list = []
    computed: list = []
    cache: dict = {}

    def get(name):
        if name in env:
            if name not in fetched:
                fetched.append(name)
            return env[name]
        if name in cache:
            return cache[name]
        rule = rules.get(name)
        if rule is None:
            raise NotDerivable(name)
        args = [get(i) for i in rule.inputs]
        cache[name] = rule.fn(*args)
        computed.append(name)
        return cache[name]

    try:
        value = get(target)
    except NotDerivable as e:
        return Outcome("not-derivable", missing=e.name, mode=mode)
    memo: dict = {}
    shadow = tuple(
        n for n in fetched
        if n in rules and all(derivable(i, rules, env, memo) for i in rules[n].inputs)
    )
    return Outcome("value", np.asarray(value, dtype=float), None, tuple(fetched), tuple(computed),
                   shadow, mode)


# --------------------------------------------------------------------------- self-test


def selftest():
    c = consts()
    a = lambda *x: np.asarray(x, dtype=float).reshape(1, 1, -1)      # noqa: E731
    s = lambda x: np.asarray([[x]], dtype=float)                       # noqa: E731
    # h/m_n = 3956.034 angstrom m/s (rule of thumb of the user guide's references)
    assert abs(c["h"] / c["m_n"] / ANGSTROM - 3956.034) < 1e-2
    # 3-4-5 geometry, source 10 m upstream on z
    src, smp, pos = a(0, 0, -10), a(0, 0, 0), a(3, 0, 4)
    env = {"source_position": src, "sample_position": smp, "position": pos,
           "tof": np.asarray([[15000.0]])}
    o = evaluate("tof", "Ltotal", True, env)
    assert o.status == "value" and abs(o.value[0, 0] - 15.0) < 1e-12
    assert o.computed == ("incident_beam", "L1", "scattered_beam", "L2", "Ltotal"), o.computed
    o = evaluate("tof", "Ltotal", False, env)
    assert abs(o.value[0, 0] - math.sqrt(9 + 14 * 14)) < 1e-12
    o = evaluate("tof", "two_theta", True, env)
    assert abs(o.value[0, 0] - math.acos(4 / 5)) < 1e-14
    # v = 15 m / 15 ms = 1000 m/s -> lambda = 3.956034 angstrom, E = 5.2270 meV
    o = evaluate("tof", "wavelength", True, env)
    assert abs(o.value[0, 0] - 3.956034) < 1e-5, o.value
    o = evaluate("tof", "energy", True, env)
    assert abs(o.value[0, 0] - 5.22704) < 1e-4, o.value
    lam = evaluate("tof", "wavelength", True, env).value
    # Q d = 2 pi; d = lambda / (2 sin theta); sin(theta) = sqrt((1 - cos 2theta) / 2) = sqrt(0.1)
    d = evaluate("tof", "dspacing", True, env).value
    q = evaluate("tof", "Q", True, env).value
    assert abs(d[0, 0] - lam[0, 0] / (2 * math.sqrt(0.1))) < 1e-12
    assert abs(q[0, 0] * d[0, 0] - 2 * math.pi) < 1e-12
    # Q vector: (2 pi / lambda) (e_i - e_f) = (2 pi / lambda) (-0.6, 0, 0.2); |Q_vec| = Q
    qv = evaluate("tof", "Q_vec", True, env).value
    assert np.allclose(qv[0, 0], 2 * math.pi / lam[0, 0] * np.array([-0.6, 0, 0.2]), rtol=1e-13)
    assert abs(np.linalg.norm(qv[0, 0]) - q[0, 0]) < 1e-12
    # precedence: a supplied L1 wins over |incident_beam|, and is reported as shadowing
    env2 = dict(env, L1=s(7.0))
    o = evaluate("tof", "Ltotal", True, env2)
    assert abs(o.value[0, 0] - 12.0) < 1e-12 and o.shadowing == ("L1",), o
    # derivability
    assert evaluate("tof", "dspacing", False, env).status == "not-derivable"
    assert evaluate("wavelength", "energy", False, {"wavelength": s(1.0)}).missing == "tof"
    assert evaluate("energy", "Q", True, {"energy": s(1.0), "two_theta": s(1.0)}).status == "not-derivable"
    assert evaluate("Q", "wavelength", True, {"Q": s(1.0)}).missing == "source_position"
    # energy mode
    ei, ef = s(50.0), s(20.0)
    assert evaluate("tof", "energy_transfer", True, dict(env, incident_energy=ei, final_energy=ef)).status == "ambiguous"
    assert evaluate("tof", "energy_transfer", True, env).status == "not-derivable"
    assert evaluate("tof", "energy", True, dict(env, final_energy=ef)).status == "ambiguous"
    assert evaluate("energy", "L1", True, {"energy": s(1.0), "L1": s(1.0), "incident_energy": ei}).status == "ambiguous"
    assert evaluate("tof", "wavelength", True, dict(env, final_energy=ef)).status == "value"
    # direct: E_i such that v_i = 2000 m/s -> t0 = 5 ms; remaining 10 ms over 5 m -> v_f = 500 m/s
    e_of_v = lambda v: c["m_n"] * v * v / 2 / MEV                      # noqa: E731
    o = evaluate("tof", "energy_transfer", True, dict(env, incident_energy=s(e_of_v(2000.0))))
    assert o.mode == "direct" and abs(o.value[0, 0] - (e_of_v(2000.0) - e_of_v(500.0))) < 1e-9, o
    # indirect: E_f with v_f = 1000 m/s -> t0 = 5 ms; 10 m in 10 ms -> v_i = 1000 m/s -> 0
    o = evaluate("tof", "energy_transfer", True, dict(env, final_energy=s(e_of_v(1000.0))))
    assert o.mode == "indirect" and abs(o.value[0, 0]) < 1e-9, o
    # unphysical: tof below t0 -> NaN
    o = evaluate("tof", "energy_transfer", True, dict(env, tof=s(1000.0), incident_energy=s(e_of_v(2000.0))))
    assert np.isnan(o.value[0, 0])
    # time at sample: v = 1000 m/s, L2 = 5 m -> 5 ms before detection
    o = evaluate("tof", "time_at_sample", True, dict(env, pulse_time=s(100.0)))
    assert abs(o.value[0, 0] - (100.0 + 15000.0 - 5000.0)) < 1e-6, o.value
    # hkl: U = R = 1, B = diag(2, 4, 5) / angstrom -> hkl = Q_vec / (2 pi) / diag
    eye = np.eye(3).reshape(1, 1, 3, 3)
    b = np.diag([2.0, 4.0, 5.0]).reshape(1, 1, 3, 3)
    o = evaluate("tof", "hkl_vec", True, dict(env, u_matrix=eye, b_matrix=b, sample_rotation=eye))
    assert np.allclose(o.value[0, 0], qv[0, 0] / (2 * math.pi) / np.array([2.0, 4.0, 5.0]), rtol=1e-13)
    assert closure("Ltotal", rules_for("tof", True, "elastic")) == {
        "L1", "L2", "incident_beam", "scattered_beam", "source_position", "sample_position", "position"}
