"""Independent CIF 1.1 tokenizer / parser, written from the CIF 1.1 syntax specification
(https://www.iucr.org/resources/cif/spec/version1.1/cifsyntax).

Rules implemented (paragraph numbers of the specification's grammar section):
* character set: printable ASCII 32..126, HT, LF (CR is not produced by the writer and rejected);
  lines of at most 2048 characters;
* white space separates tokens; `#` starts a comment only at the start of a token;
* data block heading `data_<one or more non-blank chars>` (case-insensitive keyword);
* tags `_<non-blank chars>`;
* values: unquoted strings (may not start with `" # $ ' _ [ ]`, nor with `;` at the start of a line,
  and may not be a reserved word `data_*`, `save_*`, `loop_`, `stop_`, `global_`, case-insensitive);
  single- or double-quoted strings on one line, closed by the quote character followed by white space
  or end of input; semicolon-delimited text fields (`;` in column one ... `<eol>;`);
* `loop_` followed by one or more tags and a number of values that is a positive multiple of the
  number of tags; a tag outside a loop is followed by exactly one value.

`parse(text)` returns (blocks, comments); a syntax violation raises CIFSyntaxError.
"""

MAX_LINE = 2048
ILLEGAL_FIRST = "\"#$'_[]"


class CIFSyntaxError(Exception):
    pass


def tokenize(text: str):
    for n, line in enumerate(text.split("\n"), 1):
        if len(line) > MAX_LINE:
            raise CIFSyntaxError(f"line {n} has {len(line)} characters (limit {MAX_LINE})")
    for pos, ch in enumerate(text):
        o = ord(ch)
        if not (ch in "\t\n" or 32 <= o < 127):
            raise CIFSyntaxError(f"illegal character {ch!r} at offset {pos}")
    toks = []
    i, n = 0, len(text)
    bol = True  # at beginning of line
    while i < n:
        c = text[i]
        if c == "\n":
            i += 1
            bol = True
            continue
        if c in " \t":
            i += 1
            bol = False
            continue
        if bol and c == ";":
            j = text.find("\n;", i)
            if j < 0:
                raise CIFSyntaxError(f"unterminated text field starting at offset {i}")
            toks.append(("text", text[i + 1:j], i))
            i = j + 2
            bol = False
            if i < n and text[i] not in " \t\n":
                raise CIFSyntaxError(f"text field closed at offset {j + 1} is not followed by white space")
            continue
        if c == "#":
            j = text.find("\n", i)
            j = n if j < 0 else j
            toks.append(("comment", text[i + 1:j], i))
            i = j
            continue
        if c in "'\"":
            j = i + 1
            while True:
                k = text.find(c, j)
                eol = text.find("\n", i)
                if k < 0 or (0 <= eol < k):
                    raise CIFSyntaxError(f"unterminated quoted string starting at offset {i}")
                if k + 1 >= n or text[k + 1] in " \t\n":
                    break
                j = k + 1
            toks.append(("quoted", text[i + 1:k], i))
            i = k + 1
            bol = False
            continue
        j = i
        while j < n and text[j] not in " \t\n":
            j += 1
        w = text[i:j]
        lw = w.lower()
        if w[0] == "_":
            if len(w) == 1:
                raise CIFSyntaxError(f"empty tag at offset {i}")
            toks.append(("tag", w, i))
        elif lw.startswith("data_"):
            if len(w) == 5:
                raise CIFSyntaxError(f"data block heading without a name at offset {i}")
            toks.append(("data", w[5:], i))
        elif lw.startswith("save_"):
            raise CIFSyntaxError(f"save frame / reserved word {w!r} at offset {i}")
        elif lw == "loop_":
            toks.append(("loop", w, i))
        elif lw in ("stop_", "global_"):
            raise CIFSyntaxError(f"reserved word {w!r} at offset {i}")
        elif w[0] in ILLEGAL_FIRST:
            raise CIFSyntaxError(f"unquoted string {w!r} starts with an illegal character at offset {i}")
        else:
            toks.append(("bare", w, i))
        i = j
        bol = False
    return toks


def _is_value(t):
    return t[0] in ("bare", "quoted", "text")


def parse(text: str):
    """-> (blocks, comments); blocks = [{'name', 'items': [('pair', tag, (kind, str)) | ('loop', tags, rows)]}]"""
    all_toks = tokenize(text)
    comments = [t[1] for t in all_toks if t[0] == "comment"]
    toks = [t for t in all_toks if t[0] != "comment"]
    blocks = []
    cur = None
    i = 0
    while i < len(toks):
        t = toks[i]
        if t[0] == "data":
            cur = {"name": t[1], "items": []}
            blocks.append(cur)
            i += 1
            continue
        if cur is None:
            raise CIFSyntaxError(f"{t[0]} token {t[1]!r} before the first data block heading")
        if t[0] == "tag":
            if i + 1 >= len(toks) or not _is_value(toks[i + 1]):
                nxt = toks[i + 1][:2] if i + 1 < len(toks) else "end of file"
                raise CIFSyntaxError(f"tag {t[1]} is not followed by a value but by {nxt}")
            cur["items"].append(("pair", t[1], toks[i + 1][:2]))
            i += 2
            continue
        if t[0] == "loop":
            i += 1
            tags = []
            while i < len(toks) and toks[i][0] == "tag":
                tags.append(toks[i][1])
                i += 1
            if not tags:
                raise CIFSyntaxError("loop_ without tags")
            vals = []
            while i < len(toks) and _is_value(toks[i]):
                vals.append(toks[i][:2])
                i += 1
            if not vals or len(vals) % len(tags):
                raise CIFSyntaxError(f"loop with {len(tags)} tags has {len(vals)} values")
            rows = [vals[k:k + len(tags)] for k in range(0, len(vals), len(tags))]
            cur["items"].append(("loop", tags, rows))
            continue
        raise CIFSyntaxError(f"value {t[1]!r} at offset {t[2]} does not belong to a tag or loop")
    tags_seen = None
    for b in blocks:
        tags_seen = set()
        for it in b["items"]:
            for tag in ([it[1]] if it[0] == "pair" else it[1]):
                if tag.lower() in tags_seen:
                    raise CIFSyntaxError(f"tag {tag} occurs twice in data block {b['name']}")
                tags_seen.add(tag.lower())
    return blocks, comments


def selftest():
    doc = (
        "#\\#CIF_1.1\n# a comment\ndata_x\n_a.b 1.5\n_c 'it''s x'\n_d \"a 'b' c\"\n_e\n; line1\nline2 ;not end\n;\n"
        "loop_\n_l.a\n_l.b\n1 a#b\n2 ;x\n_f ?\n"
    )
    blocks, comments = parse(doc)
    assert comments == ["\\#CIF_1.1", " a comment"], comments
    items = blocks[0]["items"]
    assert blocks[0]["name"] == "x"
    assert items[0] == ("pair", "_a.b", ("bare", "1.5"))
    assert items[1] == ("pair", "_c", ("quoted", "it''s x"))
    assert items[2] == ("pair", "_d", ("quoted", "a 'b' c"))
    assert items[3] == ("pair", "_e", ("text", " line1\nline2 ;not end"))
    assert items[4] == ("loop", ["_l.a", "_l.b"], [[("bare", "1"), ("bare", "a#b")], [("bare", "2"), ("bare", ";x")]])
    for bad in ["data_x\n_a _b\n", "data_x\n_a loop_\n", "data_x\n_a\n;abc\n", "data_x\n_a 'abc\n", "data_x\n_a $x\n",
                "data_x\n_a [x]\n", "data_x\n_a data_y\n", "data_x\n_a a b\n", "data_x\nloop_\n_a\n_b\n1 2 3\n",
                "data_\n_a 1\n", "_a 1\n", "data_x\n_a #c\n", "data_x\n_a 1\n_a 2\n", "data_x\n_a café\n",
                "data_x\n_a 'a' b'\n"]:
        try:
            parse(bad)
        except CIFSyntaxError:
            continue
        raise AssertionError(f"accepted invalid CIF {bad!r}")
    # quote followed by non-blank does not close the string
    assert parse("data_x\n_a 'a'b c'\n")[0][0]["items"][0][2] == ("quoted", "a'b c")
