"""Exact unit factors (to SI) in 50-digit arithmetic; no scipp conversion inside oracles."""

import mpmath as mp

mp.mp.dps = 50

E_CHARGE = mp.mpf("1.602176634e-19")  # exact SI value of e (J per eV)
DALTON = mp.mpf("1.66053906660e-27")

TIME = {"s": mp.mpf(1), "ms": mp.mpf(1) / 10**3, "us": mp.mpf(1) / 10**6, "ns": mp.mpf(1) / 10**9}
LENGTH = {
    "m": mp.mpf(1),
    "mm": mp.mpf(1) / 10**3,
    "cm": mp.mpf(1) / 10**2,
    "km": mp.mpf(10**3),
    "angstrom": mp.mpf(1) / 10**10,
    "nm": mp.mpf(1) / 10**9,
    "um": mp.mpf(1) / 10**6,
    "pm": mp.mpf(1) / 10**12,
    "fm": mp.mpf(1) / 10**15,
}
ENERGY = {
    "J": mp.mpf(1),
    "eV": E_CHARGE,
    "meV": E_CHARGE / 10**3,
    "ueV": E_CHARGE / 10**6,
}
ANGLE = {"rad": mp.mpf(1), "deg": mp.pi / 180}
FREQ = {"Hz": mp.mpf(1), "kHz": mp.mpf(10**3), "1/min": mp.mpf(1) / 60, "MHz": mp.mpf(10**6)}
# inverse length (for Q)
INV_LENGTH = {"1/" + k: 1 / v for k, v in LENGTH.items()}

ALL = {}
for _d in (TIME, LENGTH, ENERGY, ANGLE, FREQ, INV_LENGTH):
    ALL.update(_d)


def si(value, unit: str):
    """Exact SI value (mpf) of a stored float ``value`` given in ``unit``."""
    return mp.mpf(float(value)) * ALL[unit]


def from_si(x, unit: str):
    return x / ALL[unit]


def selftest():
    assert si(1.0, "angstrom") == mp.mpf(1) / 10**10
    assert mp.almosteq(si(180.0, "deg"), mp.pi, rel_eps=mp.mpf(10) ** -45)
    assert mp.almosteq(si(1.0, "meV"), mp.mpf("1.602176634e-22"), rel_eps=mp.mpf(10) ** -45)
    assert si(60.0, "1/min") == 1
