"""Independent re-parse of the three bundled nuclear-data tables (``csv`` module, exact decimals).

The tables are read from the *tree under test* (``vf.core.repo_src()``): the CSV text is the
ground truth of property C20, the parser in ``scippneutron.atoms`` is what is being tested.  Nothing
of scippneutron is imported here.  Cells are kept as the *text* found in the file; conversion to a
binary64 number goes through ``fractions.Fraction`` (exact decimal -> correctly rounded float), not
through the ``float(str)`` call used by the implementation.
"""

from __future__ import annotations

import csv
import re
from dataclasses import dataclass
from fractions import Fraction
from pathlib import Path

from ..core import HarnessError, repo_src

SCATTERING = "scattering_parameters.csv"
WEIGHTS = "atomic_weights.csv"
MASSES = "atomic_masses.csv"

# order of the (value, uncertainty) column pairs of scattering_parameters.csv; documented in the
# ScatteringParams docstrings (NIST n-lengths list: Coh b, Inc b, Coh xs, Inc xs, Scatt xs, Abs xs)
SCATTERING_FIELDS = (
    ("coherent_scattering_length_re", "fm"),
    ("coherent_scattering_length_im", "fm"),
    ("incoherent_scattering_length_re", "fm"),
    ("incoherent_scattering_length_im", "fm"),
    ("coherent_scattering_cross_section", "barn"),
    ("incoherent_scattering_cross_section", "barn"),
    ("total_scattering_cross_section", "barn"),
    ("absorption_cross_section", "barn"),
)

# Periodic table, written down independently of the CSV (IUPAC 2016 names); index + 1 = Z.
PERIODIC = (
    "H He Li Be B C N O F Ne Na Mg Al Si P S Cl Ar K Ca Sc Ti V Cr Mn Fe Co Ni Cu Zn Ga Ge As Se "
    "Br Kr Rb Sr Y Zr Nb Mo Tc Ru Rh Pd Ag Cd In Sn Sb Te I Xe Cs Ba La Ce Pr Nd Pm Sm Eu Gd Tb "
    "Dy Ho Er Tm Yb Lu Hf Ta W Re Os Ir Pt Au Hg Tl Pb Bi Po At Rn Fr Ra Ac Th Pa U Np Pu Am Cm "
    "Bk Cf Es Fm Md No Lr Rf Db Sg Bh Hs Mt Ds Rg Cn Nh Fl Mc Lv Ts Og"
).split()

_NUM = re.compile(r"[+-]?(\d+\.?\d*|\.\d+)([eE][+-]?\d+)?\Z")
_NAME = re.compile(r"(\d*)([A-Z][a-z]?)\Z")


def to_float(text: str) -> float:
    """Correctly rounded binary64 value of a decimal literal, without ``float(str)``."""
    if not _NUM.match(text):
        raise HarnessError(f"cell {text!r} is not a plain decimal number")
    return float(Fraction(text))


def exact(text: str) -> Fraction:
    return Fraction(text)


@dataclass(frozen=True)
class Cell:
    """One (value, uncertainty) pair as found in the file; '' means blank."""

    value: str
    std: str

    @property
    def blank(self) -> bool:
        return self.value == ""


@dataclass(frozen=True)
class Tables:
    scattering: dict  # name -> tuple of 8 Cell, in SCATTERING_FIELDS order
    weights: dict     # element -> (Z text, Cell)
    masses: dict      # isotope -> Cell
    scattering_order: tuple
    weights_order: tuple
    masses_order: tuple


def atoms_dir() -> Path:
    return repo_src() / "scippneutron" / "atoms"


def _rows(name: str) -> list:
    path = atoms_dir() / name
    with open(path, newline="", encoding="utf-8") as fh:
        return [(i + 1, r) for i, r in enumerate(csv.reader(fh))]


def _unique(d: dict, key: str, what: str, line: int) -> None:
    if key in d:
        raise HarnessError(f"{what}: duplicate name {key!r} in line {line}")


def _load() -> Tables:
    # --- scattering parameters: no header, 1 + 16 cells
    scat, order_s = {}, []
    for line, r in _rows(SCATTERING):
        if len(r) != 17:
            raise HarnessError(f"{SCATTERING}:{line}: {len(r)} cells, expected 17")
        if not _NAME.match(r[0]):
            raise HarnessError(f"{SCATTERING}:{line}: unexpected name {r[0]!r}")
        _unique(scat, r[0], SCATTERING, line)
        scat[r[0]] = tuple(Cell(r[1 + 2 * i], r[2 + 2 * i]) for i in range(8))
        order_s.append(r[0])
    # --- atomic weights: comment line, header line, then Element,Z,weight,uncertainty
    rows = _rows(WEIGHTS)
    _expect_head(rows, WEIGHTS, ["Element", "Z", "Atomic Weight [Da]", "Uncertainty [Da]"])
    wts, order_w = {}, []
    for line, r in rows[2:]:
        if len(r) != 4:
            raise HarnessError(f"{WEIGHTS}:{line}: {len(r)} cells, expected 4")
        if not re.match(r"[A-Z][a-z]?\Z", r[0]) or not re.match(r"[1-9]\d*\Z", r[1]):
            raise HarnessError(f"{WEIGHTS}:{line}: unexpected row {r!r}")
        _unique(wts, r[0], WEIGHTS, line)
        wts[r[0]] = (r[1], Cell(r[2], r[3]))
        order_w.append(r[0])
    # --- atomic masses: comment line, header line, then Isotope,mass,uncertainty
    rows = _rows(MASSES)
    _expect_head(rows, MASSES, ["Isotope", "Atomic Mass [Da]", "Uncertainty [Da]"])
    mss, order_m = {}, []
    for line, r in rows[2:]:
        if len(r) != 3:
            raise HarnessError(f"{MASSES}:{line}: {len(r)} cells, expected 3")
        m = _NAME.match(r[0])
        if not m or not m[1]:
            raise HarnessError(f"{MASSES}:{line}: unexpected name {r[0]!r}")
        _unique(mss, r[0], MASSES, line)
        mss[r[0]] = Cell(r[1], r[2])
        order_m.append(r[0])
    return Tables(scat, wts, mss, tuple(order_s), tuple(order_w), tuple(order_m))


def _expect_head(rows, name, header):
    if len(rows) < 3 or not rows[0][1] or not rows[0][1][0].startswith("#"):
        raise HarnessError(f"{name}: first line is not a '#' comment")
    if rows[1][1] != header:
        raise HarnessError(f"{name}: header line is {rows[1][1]!r}, expected {header!r}")


_CACHE: dict = {}


def tables() -> Tables:
    """Parsed tables of the tree under test (memoised per process and per directory)."""
    key = str(atoms_dir())
    if key not in _CACHE:
        _CACHE[key] = _load()
    return _CACHE[key]


def element_of(name: str) -> str | None:
    """Element symbol of a well-formed nuclide name ('157Gd' -> 'Gd', 'V' -> 'V'), else None."""
    m = _NAME.match(name)
    return m[2] if m else None


# ------------------------------------------------------------------ expected outcome of a lookup


def expect_scattering(name: str):
    """None if ``name`` must be rejected, else the tuple of 8 Cells that must be returned."""
    return tables().scattering.get(name)


def expect_atom(name: str):
    """None if ``name`` must be rejected, else dict(z, weight: Cell, mass: Cell | None).

    A name is known iff it is an element of the weights table (then it has no mass) or a nuclide of
    the masses table (then Z and weight are those of the element left after stripping the leading
    digits).
    """
    t = tables()
    if name in t.weights:
        z, w = t.weights[name]
        return {"z": int(z), "weight": w, "mass": None, "kind": "element"}
    if name in t.masses:
        el = element_of(name)
        if el not in t.weights:
            raise HarnessError(f"nuclide {name!r}: element {el!r} has no row in {WEIGHTS}")
        z, w = t.weights[el]
        return {"z": int(z), "weight": w, "mass": t.masses[name], "kind": "isotope"}
    return None


# ------------------------------------------------------------------ one-edit neighbourhood

_NEIGH: dict = {}


def _index(api: str):
    key = (str(atoms_dir()), api)
    if key not in _NEIGH:
        t = tables()
        names = set(t.scattering) if api == "scattering" else set(t.weights) | set(t.masses)
        dele = set()
        for g in names:
            for i in range(len(g)):
                dele.add((g[:i] + g[i + 1:], i))
        _NEIGH[key] = (names, dele)
    return _NEIGH[key]


def edit_distance_le1(name: str, api: str) -> bool:
    """True iff ``name`` is a genuine name of ``api`` or one insertion/deletion/substitution away."""
    names, dele = _index(api)
    if name in names:
        return True
    for i in range(len(name)):
        rest = name[:i] + name[i + 1:]
        if rest in names:            # name = genuine + one inserted character
            return True
        if (rest, i) in dele:        # one substituted character
            return True
    for i in range(len(name) + 1):   # name = genuine with one character deleted
        if (name, i) in dele:
            return True
    return False


def selftest():
    assert to_float("0.1") == 0.1 and to_float("259000.0") == 259000.0
    assert to_float("1.007825031898") == 1.007825031898
    assert to_float("-3.739") == -3.739 and to_float("0.000000000014") == 1.4e-11
    assert element_of("157Gd") == "Gd" and element_of("V") == "V" and element_of("gd") is None
    assert element_of("1H ") is None and element_of("1H\n") is None
    t = tables()
    # sizes named in the property's quantifier
    sizes = (len(t.scattering), len(t.weights), len(t.masses))
    if sizes != (371, 118, 3557):
        raise HarnessError(f"table sizes {sizes} differ from the 371 + 118 + 3557 of the property")
    # hand-checked cells (values as printed in the files / the NIST and CIAAW lists)
    gd = t.scattering["157Gd"]
    assert gd[0] == Cell("-1.14", "") and gd[1] == Cell("-71.9", ""), gd
    assert gd[2] == Cell("5.0", "5.0") and gd[7] == Cell("259000.0", "700.0"), gd
    h = t.scattering["H"]
    assert h[0] == Cell("-3.739", "") and h[2].blank and h[6] == Cell("82.02", ""), h
    assert t.weights["H"] == ("1", Cell("1.008", "0.0002"))
    assert t.weights["Tc"] == ("43", Cell("", ""))
    assert t.masses["1H"] == Cell("1.007825031898", "0.000000000014")
    # Z column against the periodic table written down above
    assert len(PERIODIC) == 118 and len(set(PERIODIC)) == 118
    for i, el in enumerate(PERIODIC):
        if el not in t.weights or int(t.weights[el][0]) != i + 1:
            raise HarnessError(f"{WEIGHTS}: element {el} should have Z={i + 1}: {t.weights.get(el)}")
    for n in t.masses:
        assert element_of(n) in t.weights, n
    assert expect_atom("H")["mass"] is None and expect_atom("1H")["z"] == 1
    assert expect_atom("99Tc")["weight"].blank and expect_atom("400H") is None
    assert expect_scattering("100Ag") is None and expect_atom("h") is None
    # neighbourhood
    assert edit_distance_le1("H", "atom") and edit_distance_le1("h", "atom")
    assert edit_distance_le1("1H ", "atom") and edit_distance_le1("157G", "scattering")
    assert edit_distance_le1("57Gd", "scattering") and not edit_distance_le1("57gD", "scattering")
    # '' is 'H' with its only character deleted; 'xyz' is far from everything
    assert edit_distance_le1("", "scattering") and not edit_distance_le1("xyz", "atom")
    assert edit_distance_le1("HE", "atom") and not edit_distance_le1("hE", "atom")
